package rules

import (
	"fmt"
	"go/token"
	"go/types"
	"sort"

	"golang.org/x/tools/go/ssa"

	"verif/checker/internal/ir"
)

func init() {
	register(&Prop{ID: "C13", Run: runC13, NotDecided: []string{
		"expiry arithmetic and durability across reopen (run-time over inputs)",
		"that every textual spelling of one IP address parses to the same net.IPNet (ParseIPNet/net.ParseIP semantics)",
		"that misbehaviour is always detected (C03/C05/C06 decide the detection sites)",
	}})
}

// enclosedClosures returns fn's function literals that are passed to a call of
// target (e.g. the transaction body given to walletdb.Update).
func closuresPassedTo(fn *ssa.Function, target *types.Func) []*ssa.Function {
	var out []*ssa.Function
	for _, in := range find(fn, callTo(target)) {
		for _, a := range ir.CallOf(in).Args {
			if mc, ok := a.(*ssa.MakeClosure); ok {
				if f, ok := mc.Fn.(*ssa.Function); ok {
					out = append(out, f)
				}
			}
		}
	}
	return out
}

func runC13(c *Ctx) {
	c.rule("C13.T1", banStoreDisciplineDoc, func() { c.banStoreDiscipline() })

	c.rule("C13.O3", banRecordedDoc, func() { c.banRecorded() })

	c.rule("C13.T3", "the record key determines the banned network: encodeIPNet writes three parts to its writer, in this order and each only after the previous write succeeded: the family tag, the address bytes of that family (tag ipv4 with To4(), tag ipv6 with To16(), paired on the same branches) and the network mask; it returns nil only after all three (a key without the mask or with a mismatched tag makes distinct networks share a record or one network own two)", func() {
		fn := c.fn("banman.encodeIPNet")
		wr := c.method("io", "Writer", "Write")
		to4 := c.method("net", "IP", "To4")
		to16 := c.method("net", "IP", "To16")
		writes := find(fn, func(in ssa.Instruction) bool {
			cc := ir.CallOf(in)
			return cc != nil && callTo(wr)(in) && cc.Value == ssa.Value(fn.Params[0])
		})
		construct := c.nm(fn) + " | key = tag || address || mask"
		if len(writes) != 3 {
			c.fail(construct, c.P.Pos(fn.Pos()), fmt.Sprintf("%d writes to the key buffer, 3 tabled (family tag, address, mask)", len(writes)))
			return
		}
		var bad []string
		// order by dominance
		sort.Slice(writes, func(i, j int) bool {
			return writes[i].Block().Dominates(writes[j].Block()) && writes[i].Block() != writes[j].Block() || (writes[i].Block() == writes[j].Block() && ir.IndexIn(writes[i]) < ir.IndexIn(writes[j]))
		})
		arg := func(i int) ssa.Value { return ir.CallOf(writes[i]).Args[0] }
		// 1: one byte holding the tag phi
		var tagPhi, ipPhi *ssa.Phi
		if sl, ok := arg(0).(*ssa.Slice); ok {
			if al, ok := sl.X.(*ssa.Alloc); ok {
				ir.Instrs(fn, func(in ssa.Instruction) {
					st, ok := in.(*ssa.Store)
					if !ok {
						return
					}
					if ia, ok := st.Addr.(*ssa.IndexAddr); ok && ia.X == ssa.Value(al) {
						if p, ok := st.Val.(*ssa.Phi); ok {
							tagPhi = p
						}
					}
				})
			}
		}
		if p, ok := ir.Strip(arg(1)).(*ssa.Phi); ok {
			ipPhi = p
		}
		if tagPhi == nil || ipPhi == nil || tagPhi.Block() != ipPhi.Block() {
			bad = append(bad, "the first two parts written are not the family tag and the address chosen together by the family switch")
		} else {
			v4, v6 := c.importConstIn("banman", "ipv4"), c.importConstIn("banman", "ipv6")
			for i := range tagPhi.Edges {
				// an incoming edge on which nothing is written (the
				// unsupported-family way out, carried to the join by result
				// variables) pairs nothing
				reaches := false
				ir.WalkCtx(tagPhi.Block(), 0, tagPhi.Block().Preds[i], nil, func(in ssa.Instruction) bool {
					if in == writes[0] {
						reaches = true
					}
					return !reaches
				})
				if !reaches {
					continue
				}
				k, isC := ir.ConstInt(tagPhi.Edges[i])
				ipv := ir.Strip(ipPhi.Edges[i])
				if ct, ok := ipv.(*ssa.ChangeType); ok {
					ipv = ct.X
				}
				switch {
				case isC && k == v4 && valIsCallTo(to4)(ipv):
				case isC && k == v6 && valIsCallTo(to16)(ipv):
				default:
					bad = append(bad, "family tag and address form are not paired (ipv4 with To4(), ipv6 with To16()) on the branch from block "+fmt.Sprint(tagPhi.Block().Preds[i].Index))
				}
			}
		}
		// 3: the mask of the ipNet parameter
		if !ir.DerivesFrom(arg(2), func(v ssa.Value) bool {
			fa, ok := v.(*ssa.FieldAddr)
			return ok && fa.X == ssa.Value(fn.Params[1]) && ir.FieldOfAddr(fa) == c.field("net", "IPNet", "Mask")
		}) {
			bad = append(bad, "the third part written is not ipNet.Mask")
		}
		sort.Strings(bad)
		c.verdict(len(bad) == 0, construct, c.P.Pos(fn.Pos()), "tag byte, To4()/To16() bytes paired with the tag, ipNet.Mask", join(bad), c.ats(writes)...)
		// each write only after the previous one succeeded; nil only after all
		c.guarded(fn, errNil("write of the family tag", writes[:1], 1), 1, "write of the address", writes[1:2], 1, gDominate)
		c.guarded(fn, errNil("write of the address", writes[1:2], 1), 1, "write of the mask", writes[2:], 1, gDominate)
		c.nilReturnsGuarded(fn, errNil("write of the mask", writes[2:], 1), 1)
	})

	c.rule("C13.T4", "writer/reader agreement of the ban record: the transaction of BanIPNet stores the expiry as 8 bytes of Unix seconds of time.Now().Add(duration) in one nested bucket and the reason as one byte in the other, both under the record key; the transaction of Status reads the expiry from the bucket the writer put it in and the reason from the other one, under its key, decodes with the same byte order variable into time.Unix(seconds, 0), and reports Banned only when the expiry record exists (the operations may sit in the helpers addBannedIPNet / fetchStatus or in the transaction closures themselves)", func() {
		upd := c.funcObj(pWalletdb, "Update")
		txOf := func(name string) *ssa.Function {
			fn := c.fn(name)
			cls := closuresPassedTo(fn, upd)
			if len(cls) != 1 {
				panic(anchorErr{"the transaction closure of " + name})
			}
			return cls[0]
		}
		wcl, rcl := txOf("(*banman.banStore).BanIPNet"), txOf("(*banman.banStore).Status")
		var bad []string
		check := func(ok bool, msg string) {
			if !ok {
				bad = append(bad, msg)
			}
		}
		orderOf := func(call ssa.Instruction) *ssa.Global {
			recv, _ := recvAndArgs(call)
			if ld, ok := recv.(*ssa.UnOp); ok {
				if g, ok := ld.X.(*ssa.Global); ok {
					return g
				}
			}
			return nil
		}
		named := func(fn *ssa.Function, name string) []ssa.Instruction {
			return find(fn, func(in ssa.Instruction) bool {
				cc := ir.CallOf(in)
				if cc == nil {
					return false
				}
				cal := ir.Resolve(cc)
				return cal.Func != nil && cal.Func.Name() == name && cal.Func.Pkg() != nil && cal.Func.Pkg().Path() == "encoding/binary"
			})
		}
		isInput := func(v ssa.Value, ok func(types.Type) bool) bool {
			return ir.InfluencedBy(v, func(x ssa.Value) bool {
				switch y := x.(type) {
				case *ssa.Parameter:
					return ok(y.Type())
				case *ssa.FreeVar:
					t := y.Type()
					if p, isP := t.(*types.Pointer); isP {
						t = p.Elem()
					}
					return ok(t)
				}
				return false
			})
		}
		// writer
		wops := opsOfKind(c.banIndexOps(wcl), "Put")
		check(len(wops) == 2, fmt.Sprintf("%d Puts in the transaction of BanIPNet, 2 tabled", len(wops)))
		var expBucket, reasonBucket *ssa.Global
		var wOrder *ssa.Global
		if len(wops) == 2 {
			wf := wops[0].in.Parent()
			pu := named(wf, "PutUint64")
			// or appended to an empty slice: order.AppendUint64(nil, secs)
			au := named(wf, "AppendUint64")
			appended := len(pu) == 0 && len(au) == 1
			if appended {
				pu = au
			}
			check(len(pu) == 1 && (appended || len(au) == 0), "expiry is not encoded with one PutUint64 (or one AppendUint64 to an empty slice)")
			if len(pu) == 1 {
				wOrder = orderOf(pu[0])
				unix := c.method("time", "Time", "Unix")
				addM := c.method("time", "Time", "Add")
				now := c.funcObj("time", "Now")
				_, puArgs := recvAndArgs(pu[0])
				secs := puArgs[1]
				okSecs := ir.DerivesFrom(secs, func(v ssa.Value) bool {
					call, ok := v.(*ssa.Call)
					if !ok || !callTo(unix)(call) {
						return false
					}
					recv := call.Call.Args[0]
					return ir.InfluencedBy(recv, func(x ssa.Value) bool { return valIsCallTo(addM)(x) }) && ir.InfluencedBy(recv, valIsCallTo(now)) &&
						isInput(recv, func(t types.Type) bool { return namedTypeIs(t, "time", "Duration") })
				})
				check(okSecs, "the stored expiry is not time.Now().Add(duration).Unix()")
				// which Put carries the 8-byte buffer PutUint64 filled
				buf := puArgs[0]
				b0, _ := buf.(*ssa.Slice)
				var expOp, reasonOp *idxOp
				for i := range wops {
					v0, _ := wops[i].val.(*ssa.Slice)
					if !appended && b0 != nil && v0 != nil && (b0.X == v0.X || arrayOrigin(b0.X) == arrayOrigin(v0.X)) {
						expOp = &wops[i]
					} else if pv, isV := pu[0].(ssa.Value); appended && isV && wops[i].val == pv {
						expOp = &wops[i]
					} else {
						reasonOp = &wops[i]
					}
				}
				check(expOp != nil && reasonOp != nil, "no bucket receives the buffer the expiry was encoded into")
				if appended {
					emptyBase := false
					switch b := buf.(type) {
					case *ssa.Const:
						emptyBase = b.IsNil()
					case *ssa.MakeSlice:
						l, ok := b.Len.(*ssa.Const)
						emptyBase = ok && l.Value != nil && l.Int64() == 0
					}
					check(emptyBase, "the expiry is appended to a slice that is not known to be empty: the record is not 8 bytes")
				} else if b0 != nil {
					if pt, ok := b0.X.Type().Underlying().(*types.Pointer); ok {
						arr, isArr := pt.Elem().Underlying().(*types.Array)
						check(isArr && arr.Len() == 8, "the expiry buffer is not 8 bytes")
					}
				}
				if expOp != nil && reasonOp != nil {
					expBucket, reasonBucket = expOp.bucket, reasonOp.bucket
					check(expBucket != nil && reasonBucket != nil && expBucket != reasonBucket, "expiry and reason are not put into two different nested buckets")
					check(sameKey(expOp.key, reasonOp.key), "the two Puts are not keyed by the same record key")
					okReason := isInput(reasonOp.val, func(t types.Type) bool { return namedTypeIs(t, ir.ModPath+"/banman", "Reason") })
					check(okReason, "the reason bucket does not receive byte(reason)")
				}
			}
		}
		// reader
		rops := opsOfKind(c.banIndexOps(rcl), "Get")
		check(len(rops) == 2, fmt.Sprintf("%d Gets in the transaction of Status, 2 tabled", len(rops)))
		if len(rops) == 2 {
			rf := rops[0].in.Parent()
			ru := named(rf, "Uint64")
			check(len(ru) == 1, "expiry is not decoded with one Uint64")
			if len(ru) == 1 {
				check(wOrder != nil && orderOf(ru[0]) == wOrder, "writer and reader do not use the same byte order variable")
				_, ruArgs := recvAndArgs(ru[0])
				var expGet, reasonGet *idxOp
				for i := range rops {
					if ruArgs[0] == rops[i].in.(ssa.Value) {
						expGet = &rops[i]
					} else {
						reasonGet = &rops[i]
					}
				}
				check(expGet != nil && reasonGet != nil, "the decoded expiry is not a value read from a bucket")
				if expGet != nil && reasonGet != nil {
					check(expBucket != nil && expGet.bucket == expBucket, "the expiry is not read from the bucket the writer puts it in")
					check(reasonBucket != nil && reasonGet.bucket == reasonBucket, "the reason is not read from the bucket the writer puts it in")
					check(sameKey(expGet.key, reasonGet.key), "the two Gets are not keyed by the same record key")
					tu := c.funcObj("time", "Unix")
					okUnix := false
					for _, x := range find(rf, callTo(tu)) {
						a := ir.CallOf(x).Args
						k, isC := ir.ConstInt(a[1])
						okUnix = ir.DerivesFrom(a[0], func(v ssa.Value) bool { return v == ru[0].(ssa.Value) }) && isC && k == 0
					}
					check(okUnix, "Expiration is not time.Unix(decoded seconds, 0)")
					okR := false
					for _, st := range find(rf, storeToField(c.field("banman", "Status", "Reason"))) {
						okR = ir.DerivesFrom(st.(*ssa.Store).Val, func(v ssa.Value) bool { return v == reasonGet.in.(ssa.Value) })
					}
					check(okR, "Status.Reason is not read from the reason bucket")
					// Banned = true only behind expiry record != nil
					var trueStores []ssa.Instruction
					for _, st := range find(rf, storeToField(c.field("banman", "Status", "Banned"))) {
						if k, isC := ir.ConstBool(st.(*ssa.Store).Val); isC && k {
							trueStores = append(trueStores, st)
						}
					}
					var nilCmp []ssa.Instruction
					ev := expGet.in.(ssa.Value)
					ir.Instrs(rf, func(in ssa.Instruction) {
						if b, ok := in.(*ssa.BinOp); ok && (b.Op == token.EQL || b.Op == token.NEQ) && (b.X == ev || b.Y == ev) {
							nilCmp = append(nilCmp, in)
						}
					})
					c.guarded(rf, equalIs("expiry record vs nil", nilCmp, false), 1, "Status.Banned = true", trueStores, 1, gDominate)
				}
			}
		}
		sort.Strings(bad)
		c.verdict(len(bad) == 0, "banman ban record | record codec agreement", c.P.Pos(wcl.Pos()), "8-byte Unix seconds + 1-byte reason, same buckets, same key, same byte order", join(bad))
	})

	c.rule("C13.T2", "one address, one record: the parser that builds the ban key's IP network and the encoder that serialises it split IPv4 from IPv6 with the same predicates (sibling agreement: an IPv4-mapped IPv6 spelling must be treated as the 4-byte address by both, otherwise mask and address lengths disagree and the spelling gets its own record); the parsed network is ip.Mask(mask) of the default single-address mask", func() {
		classifiers := func(fn *ssa.Function) []string {
			set := map[string]bool{}
			ir.Instrs(fn, func(in ssa.Instruction) {
				cc := ir.CallOf(in)
				if cc == nil {
					return
				}
				cal := ir.Resolve(cc)
				if cal.Func == nil || cal.Func.Pkg() == nil {
					return
				}
				pk := cal.Func.Pkg().Path()
				if pk != "net" && pk != "net/netip" {
					return
				}
				switch cal.Func.Name() {
				case "To4", "To16", "Is4", "Is6", "Is4In6", "Unmap", "As4", "As16":
					set[pk+"."+cal.Func.Name()] = true
				}
			})
			var out []string
			for k := range set {
				out = append(out, k)
			}
			sort.Strings(out)
			return out
		}
		// how a function decides "this is an IPv4 address": through net.IP.To4
		// or netip.Addr.Unmap+Is4 an IPv4-mapped IPv6 address counts as IPv4;
		// through netip.Addr.Is4 alone it does not
		family := func(set []string) string {
			has := func(x string) bool {
				for _, y := range set {
					if y == x {
						return true
					}
				}
				return false
			}
			switch {
			case has("net.To4"), has("net/netip.Is4") && has("net/netip.Unmap"):
				return "IPv4-mapped addresses count as IPv4"
			case has("net/netip.Is4"), has("net/netip.Is6"):
				return "IPv4-mapped addresses count as IPv6"
			}
			return "no recognised IPv4 test"
		}
		pf := c.fn("banman.ParseIPNet")
		ef := c.fn("banman.encodeIPNet")
		a, b := classifiers(pf), classifiers(ef)
		fa, fb := family(a), family(b)
		c.verdict(fa == fb && fa != "no recognised IPv4 test", "banman.ParseIPNet / banman.encodeIPNet | same IPv4/IPv6 classification", c.P.Pos(pf.Pos()), "both: "+fa+" ("+join(a)+" / "+join(b)+")", fmt.Sprintf("ParseIPNet classifies addresses with {%s} (%s) but encodeIPNet with {%s} (%s): a spelling the two treat differently (an IPv4-mapped IPv6 address) gets a mask and an address of different lengths and is stored under its own key", join(a), fa, join(b), fb), append(a, b...)...)
		// To4 is consulted before To16 wherever both are used (an IPv4 address
		// also has a 16-byte form)
		to4 := c.method("net", "IP", "To4")
		to16 := c.method("net", "IP", "To16")
		for _, fn := range []*ssa.Function{pf, ef} {
			if len(find(fn, callTo(to16))) > 0 {
				c.mustPrecede(fn, callTo(to4), "ip.To4()", callTo(to16), "ip.To16()", 1)
			}
		}
		// result: &net.IPNet{IP: ip.Mask(mask), Mask: mask}
		maskM := c.method("net", "IP", "Mask")
		okMask := false
		for _, st := range find(pf, storeToField(c.field("net", "IPNet", "IP"))) {
			okMask = valIsCallTo(maskM)(st.(*ssa.Store).Val)
		}
		c.verdict(okMask, c.nm(pf)+" | network address = ip.Mask(mask)", c.P.Pos(pf.Pos()), "host bits cleared by the mask", "ParseIPNet no longer normalises the address with ip.Mask(mask)")
		// port stripped before parsing
		shp := c.funcObj("net", "SplitHostPort")
		c.verdict(len(find(pf, callTo(shp))) == 1, c.nm(pf)+" | an optional port is split off before parsing", c.P.Pos(pf.Pos()), "net.SplitHostPort", "ParseIPNet no longer strips the port: host:port and host would be different records")
	})

	c.rule("C13.G1", "enforcement: a banned address is never admitted: handleAddPeerMsg registers a peer only if IsBanned(sp.Addr()) is false (else Disconnect); outboundPeerConnected creates/associates the peer only if IsBanned is false; the connection manager's new-address function returns an address only if IsBanned is false", func() {
		isBanned := c.method("neutrino", "ChainService", "IsBanned")
		// handleAddPeerMsg
		fn := c.fn("(*neutrino.ChainService).handleAddPeerMsg")
		ps := func(f string) *types.Var { return c.field("neutrino", "peerState", f) }
		peerMapUpd, peerMapsCovered := mapUpdateOneOf(ps("outboundPeers"), ps("persistentPeers"))
		ins := find(fn, anyOf(peerMapUpd, callTo(c.method("neutrino", "blockManager", "NewPeer"))))
		minIns := 3
		for _, in := range ins {
			if n := peerMapsCovered(in); n > 1 {
				minIns -= n - 1 // one store into "the one map or the other"
			}
		}
		g := boolIs("IsBanned(sp.Addr())", find(fn, callTo(isBanned)), 0, false)
		c.guarded(fn, g, 1, "register peer (peer maps / blockManager.NewPeer)", ins, minIns, gDominate)
		disc := c.method(pPeer, "Peer", "Disconnect")
		c.mustFollow(fn, "peer is banned", c.failEdges(g), callTo(disc), "sp.Disconnect()", nil, 1)
		// the address checked is the peer's own
		okA := false
		for _, b := range find(fn, callTo(isBanned)) {
			okA = ir.InfluencedBy(argsOf(b)[0], isParam(fn, 2))
		}
		c.verdict(okA, c.nm(fn)+" | ban status looked up for the peer being added", c.P.Pos(fn.Pos()), "IsBanned argument derives from sp", "IsBanned is not asked about the peer being added")
		// positive returns are guarded too (when the function still reports one)
		if fn.Signature.Results().Len() > 0 {
			var retTrue []ssa.Instruction
			for _, in := range find(fn, isExit) {
				if b, isC := ir.ConstBool(ir.RetVal(in.(*ssa.Return), 0)); !isC || b {
					retTrue = append(retTrue, in)
				}
			}
			c.guarded(fn, g, 1, "return true", retTrue, 1, gDominate)
		}

		// outboundPeerConnected
		fo := c.fn("(*neutrino.ChainService).outboundPeerConnected")
		newOut := c.funcObj(pPeer, "NewOutboundPeer")
		assoc := c.method(pPeer, "Peer", "AssociateConnection")
		eff := find(fo, callTo(newOut, assoc))
		g2 := boolIs("IsBanned(c.Addr.String())", find(fo, callTo(isBanned)), 0, false)
		c.guarded(fo, g2, 1, "peer.NewOutboundPeer / AssociateConnection", eff, 2, gDominate)
		okB := false
		for _, b := range find(fo, callTo(isBanned)) {
			okB = ir.InfluencedBy(argsOf(b)[0], isParam(fo, 1))
		}
		c.verdict(okB, c.nm(fo)+" | ban status looked up for the connection request's address", c.P.Pos(fo.Pos()), "IsBanned argument derives from the ConnReq", "IsBanned is not asked about the connection request's address")
		// the peer is created for the same address
		okC := false
		for _, n := range find(fo, callTo(newOut)) {
			for _, b := range find(fo, callTo(isBanned)) {
				okC = ir.CallOf(n).Args[1] == argsOf(b)[0]
			}
		}
		c.verdict(okC, c.nm(fo)+" | outbound peer created for the address that was checked", c.P.Pos(fo.Pos()), "same SSA value", "the outbound peer is created for an address other than the one checked against the ban list")

		// new-address function: the closure stored into connmgr.Config.GetNewAddress
		nc := c.fn("neutrino.NewChainService")
		gna := c.field(pConnmgr, "Config", "GetNewAddress")
		var cl *ssa.Function
		for _, st := range find(nc, storeToField(gna)) {
			ir.DerivesFrom(st.(*ssa.Store).Val, func(x ssa.Value) bool {
				if mc, ok := x.(*ssa.MakeClosure); ok {
					if f, ok := mc.Fn.(*ssa.Function); ok {
						cl = f
					}
				}
				return false
			})
		}
		if cl == nil {
			panic(anchorErr{"the closure stored in connmgr.Config.GetNewAddress inside NewChainService"})
		}
		c.R.Funcs[c.nm(cl)] = true
		// the effect: where an address that may be returned comes into being
		// (the non-nil leaves of the first result, looking through the merges
		// of result variables; a value defined behind the test is returned
		// behind it). A leaf that no instruction of the closure defines (a
		// captured variable, a parameter) counts as the return itself.
		var okRets []ssa.Instruction
		seenLeaf := map[ssa.Instruction]bool{}
		for _, in := range find(cl, isExit) {
			v := ir.RetVal(in.(*ssa.Return), 0)
			if ir.IsNil(v) {
				continue
			}
			seenV := map[ssa.Value]bool{}
			var leaves func(x ssa.Value)
			leaves = func(x ssa.Value) {
				x = ir.Strip(x)
				if x == nil || seenV[x] || ir.IsNil(x) {
					return
				}
				seenV[x] = true
				if ph, isPhi := x.(*ssa.Phi); isPhi {
					for _, e := range ph.Edges {
						leaves(e)
					}
					return
				}
				if def, isIn := x.(ssa.Instruction); isIn && def.Parent() == cl {
					if !seenLeaf[def] {
						seenLeaf[def] = true
						okRets = append(okRets, def)
					}
					return
				}
				if !seenLeaf[in] {
					seenLeaf[in] = true
					okRets = append(okRets, in)
				}
			}
			leaves(v)
		}
		g3 := boolIs("IsBanned(addrString)", find(cl, callTo(isBanned)), 0, false)
		c.guarded(cl, g3, 1, "return an address to dial", okRets, 1, gDominate)
		toNet := c.method("neutrino", "ChainService", "addrStringToNetAddr")
		okD := false
		for _, n := range find(cl, callTo(toNet)) {
			for _, b := range find(cl, callTo(isBanned)) {
				okD = argsOf(n)[0] == argsOf(b)[0]
			}
		}
		c.verdict(okD, c.nm(cl)+" | returned address is the one checked", c.P.Pos(cl.Pos()), "same SSA value", "the address returned for dialling is not the one checked against the ban list")
	})

	c.rule("C13.T5", banKeyAgreementDoc, func() { c.banKeyAgreement() })

	c.rule("C13.O1", "OnVersion: a peer lacking SFNodeWitness or SFNodeCF is banned (NoCompactFilters) and disconnected; BanPeer: the deferred disconnect runs on every exit and the store write happens only for a parsed address", func() {
		fn := c.fn("(*neutrino.ServerPeer).OnVersion")
		// comparisons  services&flag != flag
		flag := func(name string) int64 {
			k, ok := c.P.Pkg(pWire).Scope().Lookup(name).(*types.Const)
			if !ok {
				panic(anchorErr{"wire." + name})
			}
			v, _ := ir.ConstInt(ssa.NewConst(k.Val(), k.Type()))
			return v
		}
		want := c.banReasonConst("NoCompactFilters")
		ban := func(in ssa.Instruction) bool { return c.banCalls()(in) && banReason(in) == want }
		disc := c.method(pPeer, "Peer", "Disconnect")
		for _, fl := range []string{"SFNodeWitness", "SFNodeCF"} {
			k := flag(fl)
			// services&m == m for a constant m that includes the flag (the
			// flag alone, or the needed flags or-ed together): every peer
			// lacking the flag takes the "not equal" edge
			includes := func(v ssa.Value) (int64, bool) {
				m, isC := ir.ConstInt(v)
				return m, isC && m&k == k
			}
			cmps := find(fn, func(in ssa.Instruction) bool {
				b, ok := in.(*ssa.BinOp)
				if !ok || (b.Op != token.EQL && b.Op != token.NEQ) {
					return false
				}
				for _, pr := range [][2]ssa.Value{{b.X, b.Y}, {b.Y, b.X}} {
					and, ok := pr[0].(*ssa.BinOp)
					if !ok || and.Op != token.AND {
						continue
					}
					m, okM := includes(pr[1])
					if !okM {
						continue
					}
					if m1, ok1 := includes(and.Y); ok1 && m1 == m {
						return true
					}
					if m1, ok1 := includes(and.X); ok1 && m1 == m {
						return true
					}
				}
				return false
			})
			g := equalIs("services&"+fl+" vs "+fl, cmps, true)
			// ... or ServiceFlag.HasFlag(m), which is that comparison
			hasFlag := c.P.Method(pWire, "ServiceFlag", "HasFlag")
			if hasFlag != nil {
				var calls []ssa.Instruction
				for _, in := range find(fn, callTo(hasFlag)) {
					a := ir.CallOf(in).Args
					if _, ok := includes(a[len(a)-1]); ok {
						calls = append(calls, in)
					}
				}
				hg := boolIs("services.HasFlag(.."+fl+"..)", calls, 0, true)
				g.sites = append(g.sites, hg.sites...)
				g.weak = append(g.weak, hg.weak...)
				g.found += hg.found
			}
			c.mustFollow(fn, "peer lacks "+fl, c.failEdges(g), ban, "BanPeer(addr, NoCompactFilters)", nil, 1)
			c.mustFollow(fn, "peer lacks "+fl, c.failEdges(g), callTo(disc), "sp.Disconnect()", nil, 1)
		}
		bp := c.fn("(*neutrino.ChainService).BanPeer")
		parse := c.funcObj("banman", "ParseIPNet")
		banIP := c.method("banman", "Store", "BanIPNet")
		c.guarded(bp, errNil("banman.ParseIPNet", find(bp, callTo(parse)), 1), 1, "banStore.BanIPNet", find(bp, callTo(banIP)), 1, gDominate)
		// deferred disconnect registered before any return
		var defers []ssa.Instruction
		ir.Instrs(bp, func(in ssa.Instruction) {
			if _, ok := in.(*ssa.Defer); ok {
				defers = append(defers, in)
			}
		})
		okDef := len(defers) >= 1
		if okDef {
			// the deferred closure (transitively) calls Disconnect on PeerByAddr(addr)
			found := false
			for _, f := range ir.WithClosures(bp) {
				if len(find(f, callTo(disc))) > 0 {
					found = true
				}
			}
			// registered before any way out: the defer statement dominates
			// every return
			okDef = found
			for _, r := range find(bp, isExit) {
				if _, isRet := r.(*ssa.Return); !isRet || r.Block() == bp.Recover {
					continue
				}
				if r.Block() != defers[0].Block() && !defers[0].Block().Dominates(r.Block()) {
					okDef = false
				}
			}
		}
		c.verdict(okDef, c.nm(bp)+" | deferred disconnect registered on entry", c.P.Pos(bp.Pos()), "defer in the entry block reaches Peer.Disconnect", "BanPeer no longer disconnects the peer on every exit", c.ats(defers)...)
		// the ban is written for the address given, with the reason given
		okArgs := false
		for _, b := range find(bp, callTo(banIP)) {
			a := argsOf(b)
			okArgs = ir.DerivesFrom(a[0], valIsCallTo(parse)) && isParam(bp, 2)(a[1])
		}
		for _, p := range find(bp, callTo(parse)) {
			if !isParam(bp, 1)(ir.CallOf(p).Args[0]) {
				okArgs = false
			}
		}
		c.verdict(okArgs, c.nm(bp)+" | BanIPNet(ParseIPNet(addr), reason, ..)", c.P.Pos(bp.Pos()), "address and reason are BanPeer's own arguments", "BanIPNet is not called with the parsed addr argument and the given reason")
		// IsBanned reports the store's verdict
		ib := c.fn("(*neutrino.ChainService).IsBanned")
		status := c.method("banman", "Store", "Status")
		banned := c.field("banman", "Status", "Banned")
		var pos []ssa.Instruction
		okRet := true
		for _, in := range find(ib, isExit) {
			v := ir.RetVal(in.(*ssa.Return), 0)
			if b, isC := ir.ConstBool(v); isC && !b {
				continue
			}
			pos = append(pos, in)
			if !(loadsField(banned)(v) && ir.DerivesFrom(v, valIsCallTo(status))) {
				okRet = false
			}
		}
		c.verdict(okRet && len(pos) >= 1, c.nm(ib)+" | non-false result is banStore.Status(ipNet).Banned", c.P.Pos(ib.Pos()), "result derives from the store", "IsBanned returns something other than the store's Banned flag", c.ats(pos)...)
	})

	c.rule("C13.G2", blockValidatedDoc, func() { c.blockValidated() })
	c.rule("C13.V1", "every lying peer of a batch is found: "+everyPositionComparedDoc, func() { c.everyPositionCompared() })
	c.rule("C13.V2", everyServedCheckpointCheckedDoc, func() { c.everyServedCheckpointChecked() })

	c.rule("C13.O2", "ban-on-misbehaviour sites enumerated: each detection site calls the ban function with its tabled reason (GetBlock handler x2 InvalidBlock; cfheaders handler InvalidFilterHeaderCheckpoint; getUncheckpointedCFHeaders x2 InvalidFilterHeader; resolveConflict x3; OnVersion NoCompactFilters)", func() {
		type site struct {
			fn     string
			reason string
			n      int
		}
		table := []site{
			{fnGetBlock, "InvalidBlock", 2},
			{fnCFHResp, "InvalidFilterHeaderCheckpoint", 1},
			{fnUncheckCFH, "InvalidFilterHeader", 2},
			{fnResolve, "InvalidFilterHeaderCheckpoint", 2},
			{fnResolve, "InvalidFilterHeader", 1},
			{"(*neutrino.ServerPeer).OnVersion", "NoCompactFilters", 1},
		}
		for _, s := range table {
			top := c.fn(s.fn)
			want := c.banReasonConst(s.reason)
			var sites []ssa.Instruction
			for _, f := range ir.WithClosures(top) {
				for _, in := range find(f, c.banCalls()) {
					if banReason(in) == want {
						sites = append(sites, in)
					}
				}
			}
			c.verdict(len(sites) >= s.n, fmt.Sprintf("%s | %d ban site(s) with reason %s", s.fn, s.n, s.reason), c.P.Pos(top.Pos()),
				fmt.Sprintf("%d site(s)", len(sites)), fmt.Sprintf("expected %d call(s) of the ban function with reason %s, found %d (a misbehaviour is no longer punished)", s.n, s.reason, len(sites)), c.ats(sites)...)
		}
		// the func field is wired to ChainService.BanPeer
		nc := c.fn("neutrino.NewChainService")
		bf := c.field("neutrino", "blockManagerCfg", "BanPeer")
		bm := c.method("neutrino", "ChainService", "BanPeer")
		okW := false
		for _, st := range find(nc, storeToField(bf)) {
			if refersTo(bm)(st) || ir.DerivesFrom(st.(*ssa.Store).Val, func(x ssa.Value) bool {
				mc, ok := x.(*ssa.MakeClosure)
				return ok && refersTo(bm)(mc)
			}) {
				okW = true
			}
		}
		c.verdict(okW, "neutrino.NewChainService | blockManagerCfg.BanPeer = s.BanPeer", c.P.Pos(nc.Pos()), "config field bound to ChainService.BanPeer", "blockManagerCfg.BanPeer is not wired to ChainService.BanPeer")
	})
}

const banRecordedDoc = "a ban or unban that reports success was carried out: inside the transaction of BanIPNet every return is either the result of addBannedIPNet or an error that cannot be nil (no path reports success without writing the record, e.g. because a stale record exists); likewise UnbanIPNet with removeBannedIPNet; addBannedIPNet returns nil only after both Puts succeeded"

// banRecorded: see banRecordedDoc.
func (c *Ctx) banRecorded() {
	upd := c.funcObj(pWalletdb, "Update")
	for _, spec := range []struct {
		name, helper, kind string
	}{
		{"(*banman.banStore).BanIPNet", "addBannedIPNet", "Put"},
		{"(*banman.banStore).UnbanIPNet", "removeBannedIPNet", "Delete"},
	} {
		fn := c.fn(spec.name)
		cls := closuresPassedTo(fn, upd)
		construct := spec.name + " | success only through " + spec.helper
		if len(cls) != 1 {
			c.fail(construct, c.P.Pos(fn.Pos()), fmt.Sprintf("expected one transaction closure, found %d", len(cls)))
			continue
		}
		cl := cls[0]
		ops := opsOfKind(c.banIndexOps(cl), spec.kind)
		// the instructions of the closure whose result is the index operation's
		isOpResult := func(v ssa.Value) bool {
			return ir.DerivesFrom(v, func(x ssa.Value) bool {
				in, ok := x.(ssa.Instruction)
				if !ok {
					return false
				}
				for _, o := range ops {
					if o.site == in {
						return true
					}
				}
				return false
			})
		}
		var bad, sites []string
		n := 0
		for _, r := range find(cl, isExit) {
			v := ir.RetVal(r.(*ssa.Return), 0)
			sites = append(sites, c.at(r))
			switch {
			case !ir.IsNil(v) && isOpResult(v):
				n++
			case !ir.IsNil(v) && (knownNonNilError(v) || nonNilAt(v, r.Block())):
			default:
				// a plain nil is fine once every index operation was passed
				passed := len(ops) > 0
				for _, o := range ops {
					reached := false
					ir.WalkCtx(cl.Blocks[0], 0, nil, nil, func(x ssa.Instruction) bool {
						if x == o.site {
							return false
						}
						if x == r {
							reached = true
						}
						return true
					})
					if reached {
						passed = false
					}
				}
				if passed && ir.IsNil(v) {
					n++
				} else {
					bad = append(bad, "return at "+c.at(r)+" can report success without the index "+spec.kind)
				}
			}
		}
		sort.Strings(bad)
		c.verdict(len(bad) == 0 && n >= 1 && len(ops) == 2, construct, c.P.Pos(fn.Pos()), fmt.Sprintf("%d return(s): the index operation's result or a non-nil error", len(sites)), join(bad)+fmt.Sprintf(" (%d index %s operation(s))", len(ops), spec.kind), sites...)
		// the method returns the transaction's result
		okRet := true
		for _, r := range find(fn, isExit) {
			v := ir.RetVal(r.(*ssa.Return), 0)
			if !ir.DerivesFrom(v, valIsCallTo(upd)) && !isRefusal(r.(*ssa.Return)) {
				// (a refusal - a non-nil error - before the transaction
				// reports no success)
				okRet = false
			}
		}
		c.verdict(okRet, spec.name+" | returns the transaction's error", c.P.Pos(fn.Pos()), "return walletdb.Update(..)", spec.name+" does not return the transaction's result")
		// inside a helper: nil only as the result of the operations
		if h := c.P.Func("banman." + spec.helper); h != nil && spec.kind == "Put" {
			c.R.Funcs[c.nm(h)] = true
			put := c.method(pWalletdb, "ReadWriteBucket", "Put")
			var hbad []string
			for _, r := range find(h, isExit) {
				v := ir.RetVal(r.(*ssa.Return), 0)
				if isRefusal(r.(*ssa.Return)) {
					continue // a non-nil error reports no success
				}
				if ir.IsNil(v) {
					// a plain nil behind both operations, each found
					// to have succeeded
					puts := find(h, callTo(put))
					okAll := len(puts) >= 2
					for _, pc := range puts {
						dom := false
						for _, st := range errNil("Put", []ssa.Instruction{pc}, 0).sites {
							if ir.EdgeDominates(h, st.br.Edge(), r.Block()) {
								dom = true
							}
						}
						if !dom {
							okAll = false
						}
					}
					if okAll {
						continue
					}
				}
				if ir.IsNil(v) || !(valIsCallTo(put)(v) || ir.DerivesFrom(v, valIsCallTo(put))) {
					hbad = append(hbad, "return at "+c.at(r)+" is not the result of a Put")
				}
			}
			c.verdict(len(hbad) == 0, "banman."+spec.helper+" | nil only after both Puts", c.P.Pos(h.Pos()), "returns a Put error or the last Put's result", join(hbad))
		}
	}
}

const banKeyAgreementDoc = "a ban is found again under the address it was set for: ChainService.BanPeer, UnbanPeer and IsBanned hand the ban store the network that banman.ParseIPNet(addr, nil) makes of their own address argument - the same call with the same (nil) mask in all three; the store keys a record by the masked address together with the mask, so a ban recorded for an enclosing network (a /64 for IPv6 peers, say) is not found by a lookup of the single address: the peer that served the invalid block is 'banned' and connects again at once"

// banKeyAgreement: see banKeyAgreementDoc.
func (c *Ctx) banKeyAgreement() {
	parse := c.funcObj("banman", "ParseIPNet")
	for _, spec := range []struct{ fn, op string }{
		{"(*neutrino.ChainService).BanPeer", "BanIPNet"},
		{"(*neutrino.ChainService).UnbanPeer", "UnbanIPNet"},
		{"(*neutrino.ChainService).IsBanned", "Status"},
	} {
		fn := c.fn(spec.fn)
		op := c.method("banman", "Store", spec.op)
		calls := find(fn, callTo(op))
		construct := c.nm(fn) + " | store key = banman.ParseIPNet(addr, nil)"
		if len(calls) == 0 {
			c.fail(construct, c.P.Pos(fn.Pos()), "no call of banman.Store."+spec.op+" found")
			continue
		}
		var bad []string
		for _, in := range calls {
			key := argsOf(in)[0]
			n := 0
			var walk func(v ssa.Value, d int)
			seen := map[ssa.Value]bool{}
			walk = func(v ssa.Value, d int) {
				if seen[v] || d > 8 {
					return
				}
				seen[v] = true
				switch x := v.(type) {
				case *ssa.Phi:
					for _, e := range x.Edges {
						walk(e, d+1)
					}
				case *ssa.Extract:
					call, ok := x.Tuple.(*ssa.Call)
					if !ok || !callTo(parse)(call) || x.Index != 0 {
						bad = append(bad, "the key given to "+spec.op+" at "+c.at(in)+" is not a result of banman.ParseIPNet")
						return
					}
					n++
					a := call.Call.Args
					if !ir.DerivesFrom(a[0], func(y ssa.Value) bool { return y == ssa.Value(fn.Params[1]) }) {
						bad = append(bad, "banman.ParseIPNet at "+c.at(call)+" is not applied to the address argument of "+c.nm(fn))
					}
					if !ir.IsNil(a[1]) {
						bad = append(bad, "banman.ParseIPNet at "+c.at(call)+" is given a mask: the record is keyed by a wider network than the other ban operations look up")
					}
				case *ssa.Const:
					// nil on a failure path that is never handed to the store
				default:
					bad = append(bad, "the key given to "+spec.op+" at "+c.at(in)+" is not a result of banman.ParseIPNet(addr, nil)")
				}
			}
			walk(key, 0)
			if n == 0 && len(bad) == 0 {
				bad = append(bad, "the key given to "+spec.op+" at "+c.at(in)+" is not a result of banman.ParseIPNet")
			}
		}
		sort.Strings(bad)
		c.verdict(len(bad) == 0, construct, c.at(calls[0]), "the key is the result of ParseIPNet(addr, nil) on every path", join(uniq(bad)), c.ats(calls)...)
	}
}

const banStoreDisciplineDoc = "banman store: BanIPNet, Status and UnbanIPNet all derive the record key from encodeIPNet(ipNet) of their own ipNet argument, inside one walletdb.Update transaction; both indexes (expiry and reason) are written / deleted together"

// banStoreDiscipline: see banStoreDisciplineDoc.
func (c *Ctx) banStoreDiscipline() {
	upd := c.funcObj("github.com/btcsuite/btcwallet/walletdb", "Update")
	enc := c.funcObj("banman", "encodeIPNet")
	bytesM := c.method("bytes", "Buffer", "Bytes")
	users := map[string]bool{
		"(*banman.banStore).BanIPNet":   true,
		"(*banman.banStore).Status":     true,
		"(*banman.banStore).UnbanIPNet": true,
	}
	var names []string
	for n := range users {
		names = append(names, n)
	}
	sort.Strings(names)
	for _, name := range names {
		fn := c.fn(name)
		cls := closuresPassedTo(fn, upd)
		construct := name + " | key = encodeIPNet(ipNet).Bytes() inside one transaction"
		if len(cls) != 1 {
			c.fail(construct, c.P.Pos(fn.Pos()), fmt.Sprintf("expected one transaction closure passed to walletdb.Update, found %d", len(cls)))
			continue
		}
		cl := cls[0]
		c.R.Funcs[c.nm(cl)] = true
		encs := find(cl, callTo(enc))
		okv := len(encs) == 1
		detail := ""
		var users2 []ssa.Instruction
		if okv {
			e := ir.CallOf(encs[0])
			buf := ir.Strip(e.Args[0])
			// the encoded value is the method's own ipNet parameter (captured)
			ipParam := fn.Params[1]
			okIP := false
			if ld, ok := e.Args[1].(*ssa.UnOp); ok {
				if fv, ok := ld.X.(*ssa.FreeVar); ok {
					// binding
					ir.Instrs(fn, func(in ssa.Instruction) {
						if mc, ok := in.(*ssa.MakeClosure); ok && mc.Fn == ssa.Value(cl) {
							for i, b := range mc.Bindings {
								if cl.FreeVars[i] == fv {
									if a, ok := b.(*ssa.Alloc); ok {
										for _, st := range ir.StoresTo(a) {
											if st.Val == ssa.Value(ipParam) {
												okIP = true
											}
										}
									}
								}
							}
						}
					})
				}
			}
			if fv, ok := e.Args[1].(*ssa.FreeVar); ok {
				ir.Instrs(fn, func(in ssa.Instruction) {
					if mc, ok := in.(*ssa.MakeClosure); ok && mc.Fn == ssa.Value(cl) {
						for i, b := range mc.Bindings {
							if cl.FreeVars[i] == fv && b == ssa.Value(ipParam) {
								okIP = true
							}
						}
					}
				})
			}
			if !okIP {
				okv = false
				detail += "encodeIPNet is not applied to the method's ipNet parameter; "
			}
			// every bucket operation of the transaction (its own and those of
			// the helpers it calls) is keyed by Bytes() of that buffer
			for _, op := range c.banIndexOps(cl) {
				users2 = append(users2, op.site)
				k := op.key
				if k != nil {
					k = ir.ValueAt(k, op.site.Block())
				}
				kc, isCall := ir.Strip(k).(*ssa.Call)
				if k == nil || !isCall || !callTo(bytesM)(kc) || ir.Strip(kc.Call.Args[0]) != buf {
					okv = false
					detail += op.kind + " at " + c.at(op.in) + " is keyed by something other than the encodeIPNet buffer; "
				}
			}
			if len(users2) == 0 {
				okv = false
				detail += "no index operation found; "
			}
			// index operations only after a successful encode
			c.guarded(cl, errNil("encodeIPNet", encs, 0), 1, "index operation", users2, 1, gDominate)
		} else {
			detail = fmt.Sprintf("expected exactly one encodeIPNet call, found %d", len(encs))
		}
		c.verdict(okv, construct, c.P.Pos(fn.Pos()), "key derives from encodeIPNet of the ipNet argument", detail, c.ats(append(encs, users2...))...)
	}
	// both indexes together: the transaction of BanIPNet puts, the ones of
	// UnbanIPNet and (for an expired record) Status delete, one record in
	// each of the two nested buckets under the same key, the second only
	// after the first succeeded
	for _, spec := range []struct{ fn, kind string }{{"(*banman.banStore).BanIPNet", "Put"}, {"(*banman.banStore).UnbanIPNet", "Delete"}, {"(*banman.banStore).Status", "Delete"}} {
		fn := c.fn(spec.fn)
		cls := closuresPassedTo(fn, upd)
		construct := spec.fn + " | both indexes " + spec.kind + " under the same key"
		if len(cls) != 1 {
			c.fail(construct, c.P.Pos(fn.Pos()), "transaction closure not found")
			continue
		}
		ops := opsOfKind(c.banIndexOps(cls[0]), spec.kind)
		okv := len(ops) == 2 && ops[0].bucket != nil && ops[1].bucket != nil && ops[0].bucket != ops[1].bucket && sameKey(ops[0].key, ops[1].key)
		c.verdict(okv, construct, c.P.Pos(fn.Pos()), "expiry index and reason index updated with one key", fmt.Sprintf("the expiry index and the reason index are not both updated (%s) under the same key (%d operation(s) found)", spec.kind, len(ops)), c.ats(opIns(ops))...)
		if okv {
			host := ops[0].in.Parent()
			if ops[1].in.Parent() == host {
				first, second := ops[0], ops[1]
				if first.in.Block() != second.in.Block() && !ir.Reach([]*ssa.BasicBlock{first.in.Block()}, nil)[second.in.Block()] || first.in.Block() == second.in.Block() && ir.IndexIn(first.in) > ir.IndexIn(second.in) {
					first, second = second, first
				}
				c.guarded(host, errNil("first index "+spec.kind, []ssa.Instruction{first.in}, 0), 1, "second index "+spec.kind, []ssa.Instruction{second.in}, 1, gDominate)
			}
		}
	}
	// Status reports Banned only for an unexpired record
	st := c.fn("(*banman.banStore).Status")
	cl := closuresPassedTo(st, upd)
	if len(cl) == 1 {
		before := c.method("time", "Time", "Before")
		g := boolIs("time.Now().Before(status.Expiration)", find(cl[0], callTo(before)), 0, true)
		// the store to the result variable (captured banStatus)
		var sets []ssa.Instruction
		ir.Instrs(cl[0], func(in ssa.Instruction) {
			if s, ok := in.(*ssa.Store); ok {
				// (the captured variable of type Status; other captured
				// variables - counters, flags - are not the result)
				if fv, isFV := s.Addr.(*ssa.FreeVar); isFV {
					if p, ok := fv.Type().(*types.Pointer); ok && namedTypeIs(p.Elem(), ir.ModPath+"/banman", "Status") {
						sets = append(sets, in)
					}
				}
			}
		})
		c.guarded(cl[0], g, 1, "banStatus = status", sets, 1, gDominate)
		dels := opSites(opsOfKind(c.banIndexOps(cl[0]), "Delete"))
		c.mustFollow(cl[0], "record expired", c.failEdges(g), oneOf(dels), "removal of the expired record (lazy expiry)", nil, 1)
	}
}

// arrayOrigin: the array cell whose contents the cell v holds: v itself, or,
// when v is written once and with a whole-array copy of another local cell
// (`out := buf`, a helper returning its scratch array by value), that cell's
// origin.
func arrayOrigin(v ssa.Value) ssa.Value {
	for d := 0; d < 4; d++ {
		al, ok := v.(*ssa.Alloc)
		if !ok {
			return v
		}
		var stores []*ssa.Store
		for _, r := range ir.Refs(al) {
			if st, isSt := r.(*ssa.Store); isSt && st.Addr == ssa.Value(al) {
				stores = append(stores, st)
			}
		}
		if len(stores) != 1 {
			return v
		}
		val := stores[0].Val
		if ph, isPhi := val.(*ssa.Phi); isPhi {
			// result variable of a written-out helper: every edge the same load
			var one ssa.Value
			same := true
			for _, e := range ph.Edges {
				if one == nil {
					one = e
				} else if ld1, ok1 := one.(*ssa.UnOp); ok1 {
					if ld2, ok2 := e.(*ssa.UnOp); !ok2 || ld1.X != ld2.X {
						same = false
					}
				} else if one != e {
					same = false
				}
			}
			if !same || one == nil {
				return v
			}
			val = one
		}
		ld, ok := val.(*ssa.UnOp)
		if !ok || ld.Op != token.MUL {
			return v
		}
		src, ok := ld.X.(*ssa.Alloc)
		if !ok || !types.Identical(src.Type(), al.Type()) {
			return v
		}
		v = src
	}
	return v
}
