package rules

import (
	"fmt"
	"go/token"
	"go/types"
	"os"
	"sort"
	"strings"

	"golang.org/x/tools/go/ssa"

	"verif/checker/internal/ir"
)

func init() {
	register(&Prop{ID: "C17", Run: runC17, NotDecided: []string{
		"a wall-clock bound on Stop (only the absence of unescapable blocking operations on the shutdown path is decided)",
		"that the data directory can be reopened after Stop",
		"blocking inside btcd/btcwallet/lnd code (peer, connmgr, addrmgr, bbolt): trusted",
	}})
}

const fnCSStop = "(*neutrino.ChainService).Stop"

// bareTable: every unconditional channel send / receive of the module, with
// the reason it cannot block forever. Anything not listed fails.
var bareTable = []bareOp{
	{"(*neutrino.ChainService).handleQuery", "send", "local:chan query.Peer", 1, "sized-by-count", "channel made with capacity state.Count() and filled inside state.forAllPeers of the same state"},
	{"(*neutrino.ChainService).ConnectedCount", "recv", "local:chan int32", 1, "rendezvous-reply", "receive reachable only after the query was handed to peerHandler, which replies exactly once (C17.X1)"},
	{"(*neutrino.ChainService).OutboundGroupCount", "recv", "local:chan int", 1, "rendezvous-reply", "C17.X1"},
	{"(*neutrino.ChainService).AddedNodeInfo", "recv", "local:chan []*neutrino.ServerPeer", 1, "rendezvous-reply", "C17.X1"},
	{"(*neutrino.ChainService).Peers", "recv", "local:chan []*neutrino.ServerPeer", 1, "rendezvous-reply", "C17.X1"},
	{"(*neutrino.ChainService).DisconnectNodeByAddr", "recv", "local:chan error", 1, "rendezvous-reply", "C17.X1"},
	{"(*neutrino.ChainService).DisconnectNodeByID", "recv", "local:chan error", 1, "rendezvous-reply", "C17.X1"},
	{"(*neutrino.ChainService).RemoveNodeByAddr", "recv", "local:chan error", 1, "rendezvous-reply", "C17.X1"},
	{"(*neutrino.ChainService).RemoveNodeByID", "recv", "local:chan error", 1, "rendezvous-reply", "C17.X1"},
	{"(*neutrino.ChainService).ConnectNode", "recv", "local:chan error", 1, "rendezvous-reply", "C17.X1"},
	{"(*query.peerWorkManager).workDispatcher", "send", "field:batchProgress.errChan", 6, "buffered-once", "capacity 1 (Query), one send per batch (C12.X1)"},
	{"(*query.peerWorkManager).Query", "send", "local:chan error", 1, "buffered-once", "capacity 1, the only send when the batch was not handed over"},
	{"(*pushtx.Broadcaster).broadcastHandler", "send", "field:broadcastReq.errChan", 2, "buffered-once", "capacity 1 (Broadcast), one reply per request (C15.G1)"},
	{"(*pushtx.Broadcaster).broadcastHandler", "send", "local:chan struct{}", 2, "semaphore", "capacity 1, token discipline (C15.P1)"},
	{"(*blockntfns.SubscriptionManager).subscriptionHandler", "send", "field:newSubscription.errChan", 1, "buffered-once", "capacity 1 (NewSubscription), one reply per registration (C11.O1)"},
	{"(*neutrino.Rescan).Start", "send", "local:chan error", 2, "buffered-once", "capacity 1, the two sends are on disjoint paths of one call"},
	{"(*chanutils.BatchWriter[T]).AddItem", "send", "field:ConcurrentQueue.chanIn", 1, "exception", "the queue goroutine receives unconditionally while running; the last producer (work manager workers) is stopped before the batch writer (C17.O1)"},
}

// goesRoundAgain: from the edge e a loop head (the target of a back edge) can
// be reached again. The exploration knows what the edge decided and the
// values result variables hold on the edges it takes (an error put aside on
// the failure edge and tested behind the merge sends the path to the return),
// so a helper written out in the loop body, whose exits all meet in one
// `if err != nil { return }`, is followed the way its exits go. Returns the
// loop head reached, or nil.
func goesRoundAgain(e ir.Edge, back map[ir.Edge]bool) *ssa.BasicBlock {
	heads := map[*ssa.BasicBlock]bool{}
	for be := range back {
		heads[be.From.Succs[be.Succ]] = true
	}
	to := e.From.Succs[e.Succ]
	var hit *ssa.BasicBlock
	facts := map[ssa.Value]bool{}
	if iff, ok := e.From.Instrs[len(e.From.Instrs)-1].(*ssa.If); ok {
		facts[iff.Cond] = e.Succ == 0
	}
	ir.WalkFacts(to, 0, e.From, nil, facts, func(in ssa.Instruction) bool {
		if hit != nil {
			return false
		}
		if b := in.Block(); heads[b] && len(b.Instrs) > 0 && b.Instrs[0] == in && b != to {
			hit = b
			return false
		}
		return true
	})
	return hit
}

func runC17(c *Ctx) {
	if os.Getenv("NVET_DEBUG_GO") != "" {
		c.debugGoSites()
		c.debugStop()
	}
	cs := func(f string) *types.Var { return c.field("neutrino", "ChainService", f) }

	c.rule("C17.O4", "a rescan is released when the client stops: once the subscription manager has stopped every Subscribe fails, and a rescan that is catching up learns of the shutdown only through that failure; in rescanState.rescan the failure edge of chain.Subscribe therefore leads to a return within the same iteration (the failure is never retried around the loop)", func() {
		fn := c.fn("(*neutrino.rescanState).rescan")
		sub := c.method("neutrino", "ChainSource", "Subscribe")
		subs := find(fn, callTo(sub))
		g := errNil("chain.Subscribe", subs, 1)
		back := ir.BackEdges(fn)
		var bad []string
		for _, gs := range g.sites {
			e := gs.br.Other()
			if hdr := goesRoundAgain(e, back); hdr != nil {
				bad = append(bad, "after the failed Subscribe at "+c.at(gs.site)+" the loop can go round again (loop head at "+c.at(hdr.Instrs[0])+")")
			}
		}
		for _, u := range g.unchecked {
			bad = append(bad, "the error of the Subscribe at "+c.at(u)+" is not examined")
		}
		sort.Strings(bad)
		c.verdict(len(g.sites) >= 1 && len(bad) == 0, c.nm(fn)+" | a failed Subscribe ends the rescan", c.P.Pos(fn.Pos()), fmt.Sprintf("%d Subscribe call(s): the failure edge reaches only returns", len(subs)), join(uniq(bad)), c.ats(subs)...)
	})
	c.rule("C17.O5", "a rescan notices that its subscription was shut down: closing the Notifications channel is how the subscription manager releases a rescan at Stop (a rescan watches its caller's quit channel, not the client's), so every receive from blockntfns.Subscription.Notifications in the root package tests the receive's ok result, and the edge on which the channel is found closed reaches only returns (a closed channel is always ready: skipping it spins forever and the rescan's caller is never released)", func() {
		notif := c.field("blockntfns", "Subscription", "Notifications")
		n := 0
		var bad []string
		var sites []ssa.Instruction
		for _, fn := range c.P.Funcs {
			if pkgOf(fn) == nil || pkgOf(fn).Path() != ir.ModPath {
				continue
			}
			back := ir.BackEdges(fn)
			ir.Instrs(fn, func(in ssa.Instruction) {
				sel, ok := in.(*ssa.Select)
				if !ok {
					return
				}
				recv := false
				for _, st := range sel.States {
					if st.Dir == types.RecvOnly && loadsField(notif)(st.Chan) {
						recv = true
					}
				}
				if !recv {
					return
				}
				n++
				sites = append(sites, in)
				// the arm is there in every round: a channel variable that is
				// nil on some path switches the arm off, and with it the only
				// way the rescan learns that its subscription was closed
				for _, st := range sel.States {
					if st.Dir != types.RecvOnly || !loadsField(notif)(st.Chan) {
						continue
					}
					var hasNil func(v ssa.Value, d int) bool
					hasNil = func(v ssa.Value, d int) bool {
						if d > 3 {
							return false
						}
						if ir.IsNil(v) {
							return true
						}
						if ph, isPhi := ir.Strip(v).(*ssa.Phi); isPhi {
							for _, e := range ph.Edges {
								if hasNil(e, d+1) {
									return true
								}
							}
						}
						return false
					}
					if hasNil(st.Chan, 0) {
						bad = append(bad, c.nm(fn)+": the select at "+c.at(in)+" receives from a variable that is nil on some path instead of Subscription.Notifications: in those rounds the rescan does not see its subscription being closed")
					}
				}
				tested := 0
				for _, r := range ir.Refs(sel) {
					ex, isEx := r.(*ssa.Extract)
					if !isEx || ex.Index != 1 {
						continue
					}
					for _, br := range ir.TrueBranches(ex) {
						tested++
						e := br.Other()
						if br.Pol < 0 {
							continue
						}
						if goesRoundAgain(e, back) != nil {
							bad = append(bad, c.nm(fn)+": after the subscription is found closed at "+c.at(br.If)+" the loop can go round again")
						}
					}
				}
				if tested == 0 {
					bad = append(bad, c.nm(fn)+": the receive at "+c.at(in)+" does not test whether the channel was closed")
				}
			})
		}
		sort.Strings(bad)
		c.verdict(n >= 2 && len(bad) == 0, "neutrino | a closed block subscription ends the rescan", "", fmt.Sprintf("%d receive(s) from Subscription.Notifications, each with an ok test whose closed edge only returns", n), join(uniq(bad)), c.ats(sites)...)
	})
	c.rule("C17.S2", "Stop returns from every state, also when Start never ran or failed half-way (a failed headers import makes ChainService.Start return before any subsystem was started, and the caller then stops the service): in every type of the module with a Start and a Stop method, Stop does not wait for a channel that is closed only by a goroutine Start spawns, unless the wait lies behind a test of the flag Start sets (the goroutine does not exist, the channel is never closed, Stop waits for ever)", func() {
		type pair struct{ start, stop *ssa.Function }
		pairs := map[*types.Named]*pair{}
		for _, fn := range c.P.Funcs {
			if fn.Parent() != nil || fn.Signature.Recv() == nil {
				continue
			}
			if fn.Name() != "Start" && fn.Name() != "Stop" {
				continue
			}
			rt := fn.Signature.Recv().Type()
			if p, ok := rt.(*types.Pointer); ok {
				rt = p.Elem()
			}
			n, ok := rt.(*types.Named)
			if !ok {
				continue
			}
			if pairs[n] == nil {
				pairs[n] = &pair{}
			}
			if fn.Name() == "Start" {
				pairs[n].start = fn
			} else {
				pairs[n].stop = fn
			}
		}
		cg := c.graph()
		nTypes, nWaits := 0, 0
		var bad []string
		var names []string
		for n, pr := range pairs {
			if pr.start == nil || pr.stop == nil {
				continue
			}
			nTypes++
			names = append(names, c.on(n.Obj()))
			// goroutines Start spawns (directly or in what it calls), and everything they run
			spawned := map[*ssa.Function]bool{}
			for f := range c.reachable(pr.start) {
				for _, gs := range cg.goSites {
					if gs.in.Parent() == f {
						for _, t := range gs.targets {
							for r := range c.reachable(t) {
								spawned[r] = true
							}
						}
					}
				}
			}
			if len(spawned) == 0 {
				continue
			}
			// channel fields of the type closed only inside those goroutines
			st, _ := n.Underlying().(*types.Struct)
			if st == nil {
				continue
			}
			for i := 0; i < st.NumFields(); i++ {
				f := st.Field(i)
				if _, isChan := f.Type().Underlying().(*types.Chan); !isChan {
					continue
				}
				closedIn, closedOut := 0, 0
				for _, fn := range c.P.Funcs {
					for range find(fn, closes(loadsField(f))) {
						if spawned[fn] {
							closedIn++
						} else {
							closedOut++
						}
					}
				}
				if closedIn == 0 || closedOut > 0 {
					continue
				}
				// waits of Stop (and of what it calls) on that channel
				for sf := range c.reachable(pr.stop) {
					if spawned[sf] {
						continue
					}
					var waits []ssa.Instruction
					ir.Instrs(sf, func(in ssa.Instruction) {
						switch x := in.(type) {
						case *ssa.UnOp:
							if x.Op == token.ARROW && loadsField(f)(x.X) {
								waits = append(waits, in)
							}
						case *ssa.Select:
							if x.Blocking && selectHasRecv(x, loadsField(f)) {
								waits = append(waits, in)
							}
						}
					})
					if len(waits) == 0 {
						continue
					}
					nWaits += len(waits)
					// the flag(s) Start sets with an atomic operation on a field of the type
					flag := map[*types.Var]bool{}
					ir.Instrs(pr.start, func(in ssa.Instruction) {
						cc := ir.CallOf(in)
						if cc == nil || !(atomicOp("CompareAndSwap")(in) || atomicOp("Add")(in) || atomicOp("Store")(in) || atomicOp("Swap")(in)) || len(cc.Args) == 0 {
							return
						}
						if fa, ok := cc.Args[0].(*ssa.FieldAddr); ok {
							flag[ir.FieldOfAddr(fa)] = true
						}
					})
					var g guard
					g.name = "Start has run (test of the flag Start sets)"
					ir.Instrs(sf, func(in ssa.Instruction) {
						cc := ir.CallOf(in)
						if cc == nil || !(atomicOp("Load")(in) || atomicOp("CompareAndSwap")(in)) || len(cc.Args) == 0 {
							return
						}
						fa, ok := cc.Args[0].(*ssa.FieldAddr)
						if !ok || !flag[ir.FieldOfAddr(fa)] {
							return
						}
						v, isV := in.(ssa.Value)
						if !isV {
							return
						}
						for _, r := range ir.Refs(v) {
							switch y := r.(type) {
							case *ssa.BinOp:
								for _, br := range ir.EqBranches(y) {
									g.sites = append(g.sites, guardSite{br, in}, guardSite{br.Flip(), in})
								}
							case *ssa.If:
								for _, br := range ir.TrueBranches(v) {
									g.sites = append(g.sites, guardSite{br, in}, guardSite{br.Flip(), in})
								}
								_ = y
							}
						}
					})
					// guarded: no wait reachable from the entry once both sides of ... one
					// side of a flag test is cut: the wait must lie behind SOME outcome of it
					okAll := len(g.sites) > 0
					if okAll {
						for _, w := range waits {
							dom := false
							for _, gsite := range g.sites {
								if ir.EdgeDominates(sf, gsite.br.Edge(), w.Block()) {
									dom = true
								}
							}
							if !dom {
								okAll = false
							}
						}
					}
					if !okAll {
						bad = append(bad, fmt.Sprintf("%s waits for %s.%s at %s, which only a goroutine spawned by Start closes, without testing that Start ran", c.nm(sf), c.on(n.Obj()), c.on(f), join(c.ats(waits))))
					}
				}
			}
		}
		sort.Strings(bad)
		sort.Strings(names)
		c.verdict(nTypes >= 5 && len(bad) == 0, "module | Stop methods do not wait for goroutines that Start never spawned", "", fmt.Sprintf("%d types with Start and Stop (%s); %d wait(s) on goroutine-closed channels, each behind a test of the started flag", nTypes, join(names), nWaits), join(bad))
	})
	c.rule("C17.O7", "Stop returns exactly when everything it counted has ended: "+waitGroupGrowthDoc, func() { c.waitGroupGrowth(4) })
	c.rule("C17.X2", "every caller blocked on a batch is released at shutdown, whichever way the dispatcher leaves: "+verdictPerBatchDoc, func() { c.verdictPerBatch() })
	c.rule("C17.X3", "a query that was taken is answered: the requesters behind ChainService.Peers, ConnectedCount, PeerByAddr and the rest wait for the reply without an escape once their send on s.query went through (C17.X1 counts one reply per case of handleQuery); so in peerHandler every path from the arm that received a query to the next round passes handleQuery - a received query dropped because the shutdown flag is already up leaves its requester blocked for good: the filter-header sync inside queryAllPeers, a rebroadcast, the work manager's peer subscription, and with them blockManager.Stop, broadcaster.Stop and ChainService.Stop", func() {
		fn := c.fn("(*neutrino.ChainService).peerHandler")
		qf := c.field("neutrino", "ChainService", "query")
		hq := c.method("neutrino", "ChainService", "handleQuery")
		var starts []start
		ir.Instrs(fn, func(in ssa.Instruction) {
			sel, ok := in.(*ssa.Select)
			// the blocking select of the handler's loop; the non-blocking
			// drain behind the loop runs after s.quit was closed, when no
			// requester can be parked on the send any more (its select has
			// the quit arm, and a closed channel wins over a send nobody waits for)
			if !ok || !sel.Blocking {
				return
			}
			for i, st := range sel.States {
				if st.Dir != types.RecvOnly || !loadsField(qf)(st.Chan) {
					continue
				}
				for _, rr := range ir.Refs(sel) {
					if ex, isEx := rr.(*ssa.Extract); isEx && ex.Index == 0 {
						for _, ib := range ir.IntEqBranches(ex) {
							if ib.K == int64(i) {
								starts = append(starts, atEdge(c, ib.Edge(), "a query was received at "+c.at(sel)))
							}
						}
					}
				}
			}
		})
		c.mustFollowIter(fn, "a query was received", starts, callTo(hq), "s.handleQuery(state, qmsg)", nil, 1)
	})
	c.rule("C17.O8", "the batch manager notices a shutdown on every round: UtxoScanner.Stop waits for batchManager to return, and a round that finds the queue non-empty never reaches the wait on the condition variable; so every way round the manager's loop passes a poll of s.quit (a select with a <-s.quit arm) - left to the scan's own error value, a scan that fails for any other reason while requests remain queued sends the manager round and round, and Stop, and ChainService.Stop with it, never returns", func() {
		fn := c.fn("(*neutrino.UtxoScanner).batchManager")
		quit := c.field("neutrino", "UtxoScanner", "quit")
		scan := c.method("neutrino", "UtxoScanner", "scanFromHeight")
		scans := find(fn, callTo(scan))
		var h *ssa.BasicBlock
		for _, x := range scans {
			// outermost loop around the scan
			for b := ir.LoopHeaderOf(x.Block()); b != nil; {
				h = b
				var outer *ssa.BasicBlock
				for _, p := range b.Preds {
					if lh := ir.LoopHeaderOf(p); lh != nil && lh != b && ir.LoopBlocks(lh)[b] {
						outer = lh
					}
				}
				b = outer
			}
		}
		construct := c.nm(fn) + " | every round of the manager's loop polls s.quit"
		if h == nil {
			c.fail(construct, c.P.Pos(fn.Pos()), "the scan is not started from inside a loop")
			return
		}
		poll := func(in ssa.Instruction) bool {
			sel, ok := in.(*ssa.Select)
			return ok && selectHasRecv(sel, loadsField(quit))
		}
		back := ir.BackEdgesTo(h)
		type pt struct {
			b   *ssa.BasicBlock
			idx int
		}
		seen := map[*ssa.BasicBlock]bool{}
		work := []pt{{h, 0}}
		var bad []string
		for len(work) > 0 {
			p := work[len(work)-1]
			work = work[:len(work)-1]
			stopped := false
			for _, in := range p.b.Instrs[p.idx:] {
				if poll(in) {
					stopped = true
					break
				}
			}
			if stopped {
				continue
			}
			for i, sc := range p.b.Succs {
				if back[ir.Edge{From: p.b, Succ: i}] {
					bad = append(bad, "the next round is reached from the block ending at "+c.at(p.b.Instrs[len(p.b.Instrs)-1])+" without a poll of s.quit")
					continue
				}
				if !seen[sc] {
					seen[sc] = true
					work = append(work, pt{sc, 0})
				}
			}
		}
		sort.Strings(bad)
		c.verdict(len(bad) == 0, construct, c.at(h.Instrs[0]), "every way round the loop passes select { case <-s.quit: ... }", join(uniq(bad)), c.ats(scans)...)
	})
	c.rule("C17.G1", "the data directory can be reopened after a Stop in mid-reorganisation: "+rollbackReachesTargetDoc, func() { c.rollbackReachesTarget() })
	c.rule("C17.P3", "Stop completes: "+lockOrderDoc, func() { c.lockOrder() })
	c.rule("C17.P2", "Stop completes: "+eventsUnlockedDoc, func() { c.eventsUnlocked() })
	c.rule("C17.B1", "blocking discipline over both modules: every blocking select has an arm that becomes ready at shutdown or after a bounded time (a close-only signal channel, context.Done or a timer); every unconditional send / receive is a tabled site with a reason and a supporting obligation; buffered classes are allocated with constant capacity >= 1", func() {
		// reply sends of handleQuery: one row per type-switch case that carries a
		// channel field (exactly-once is C17.X1), independent of field names
		table := append([]bareOp{}, bareTable...)
		hq := c.fn("(*neutrino.ChainService).handleQuery")
		ir.Instrs(hq, func(in ssa.Instruction) {
			ta, ok := in.(*ssa.TypeAssert)
			if !ok || !ta.CommaOk {
				return
			}
			st, ok := ta.AssertedType.Underlying().(*types.Struct)
			named, _ := ta.AssertedType.(*types.Named)
			if !ok || named == nil {
				return
			}
			for i := 0; i < st.NumFields(); i++ {
				if _, isChan := st.Field(i).Type().Underlying().(*types.Chan); isChan {
					table = append(table, bareOp{c.nm(hq), "send", "field:" + c.on(named.Obj()) + "." + c.on(st.Field(i)), 1 << 20, "rendezvous-reply", "reply of a query case; exactly one per path (C17.X1)"})
				}
			}
		})
		c.blockingDiscipline(table, 60)
		cc := c.onCache()
		cc.blockingDiscipline(nil, 0)
		// capacity of the buffered classes
		for _, t := range bareTable {
			if t.class != "buffered-once" && t.class != "semaphore" {
				continue
			}
			okv, n := true, 0
			var sites []string
			if strings.HasPrefix(t.key, "field:") {
				// every MakeChan flowing into that field anywhere (through other fields too)
				var visit func(key string, depth int)
				seenKey := map[string]bool{}
				visit = func(key string, depth int) {
					if seenKey[key] || depth > 3 {
						return
					}
					seenKey[key] = true
					for _, fn := range c.P.Funcs {
						ir.Instrs(fn, func(in ssa.Instruction) {
							st, ok := in.(*ssa.Store)
							if !ok {
								return
							}
							fa, ok := st.Addr.(*ssa.FieldAddr)
							if !ok || c.fieldKey(fa.X.Type(), ir.FieldOfAddr(fa)) != key {
								return
							}
							ir.DerivesFrom(st.Val, func(x ssa.Value) bool {
								switch y := x.(type) {
								case *ssa.MakeChan:
									n++
									sites = append(sites, c.at(y))
									if k, isC := ir.ConstInt(y.Size); !isC || k < 1 {
										okv = false
									}
								case *ssa.FieldAddr:
									visit(c.fieldKey(y.X.Type(), ir.FieldOfAddr(y)), depth+1)
								}
								return false
							})
						})
					}
				}
				visit(t.key, 0)
			} else {
				top := c.fn(t.fn)
				for _, f := range ir.WithClosures(top) {
					ir.Instrs(f, func(in ssa.Instruction) {
						mk, ok := in.(*ssa.MakeChan)
						if !ok {
							return
						}
						want := strings.TrimPrefix(t.key, "local:")
						got := types.TypeString(mk.Type(), func(p *types.Package) string { return p.Name() })
						if got == want {
							n++
							sites = append(sites, c.at(mk))
							if k, isC := ir.ConstInt(mk.Size); !isC || k < 1 {
								okv = false
							}
						}
					})
				}
			}
			c.verdict(okv && n >= 1, fmt.Sprintf("capacity >= 1 | %s | %s", t.key, t.fn), "", fmt.Sprintf("%d allocation(s), all with constant capacity >= 1", n), fmt.Sprintf("channel %s is tabled as %s but an allocation has no constant capacity >= 1 (or no allocation was found): the unconditional send can block", t.key, t.class), sites...)
		}
	})

	c.rule("C17.P1", "a goroutine that exits on shutdown leaves no lock behind (the next taker, and with it every join in Stop, would block for ever): "+rootPairingDoc, func() { c.rootPairing() })

	c.rule("C17.V1", "no batch is left without a verdict at shutdown (its caller, e.g. a UTXO scan that Stop waits for, would never return): "+batchRendezvousDoc, func() { c.batchRendezvous() })

	c.rule("C17.X1", "query/reply rendezvous: handleQuery sends exactly one reply on every path of every case that carries a reply channel; each requester receives only after its hand-off to peerHandler succeeded (the quit arm returns); peerHandler's shutdown drain cannot complete a hand-off (it polls with a default arm)", func() {
		fn := c.fn("(*neutrino.ChainService).handleQuery")
		n := 0
		ir.Instrs(fn, func(in ssa.Instruction) {
			ta, ok := in.(*ssa.TypeAssert)
			if !ok || !ta.CommaOk {
				return
			}
			st, ok := ta.AssertedType.Underlying().(*types.Struct)
			if !ok {
				return
			}
			var reply *types.Var
			for i := 0; i < st.NumFields(); i++ {
				if _, isChan := st.Field(i).Type().Underlying().(*types.Chan); isChan {
					reply = st.Field(i)
				}
			}
			named, _ := ta.AssertedType.(*types.Named)
			if reply == nil || named == nil {
				return
			}
			n++
			key := "field:" + c.on(named.Obj()) + "." + c.on(reply)
			send := func(x ssa.Instruction) bool {
				s, ok := x.(*ssa.Send)
				return ok && c.chanKey(s.Chan) == key
			}
			construct := fmt.Sprintf("%s | case %s replies exactly once", c.nm(fn), named.Obj().Name())
			var starts []ir.Edge
			for _, r := range ir.Result(ta, 1) {
				for _, br := range ir.TrueBranches(r) {
					starts = append(starts, br.Edge())
				}
			}
			if len(starts) == 0 {
				c.fail(construct, c.at(in), "type switch case not found")
				return
			}
			counts := map[int]string{}
			for _, e := range starts {
				for k, at := range c.countToExit(e.From.Succs[e.Succ], send) {
					counts[k] = at
				}
			}
			okv := len(counts) == 1
			if _, one := counts[1]; !one {
				okv = false
			}
			var bad []string
			for k, at := range counts {
				if k != 1 {
					bad = append(bad, fmt.Sprintf("%d replies on a path ending at %s", k, at))
				}
			}
			sort.Strings(bad)
			c.verdict(okv, construct, c.at(in), "every path through the case sends one reply", join(bad)+": the requester blocks forever (0) or the handler blocks on the second send (2)", c.at(in))
		})
		if n < 8 {
			c.undecided(c.nm(fn)+" | cases with a reply channel", c.P.Pos(fn.Pos()), fmt.Sprintf("found %d cases with a reply field, need 8", n))
		}
		// requesters
		for _, t := range bareTable {
			if t.kind != "recv" {
				continue
			}
			rf := c.fn(t.fn)
			var hand *ssa.Select
			ir.Instrs(rf, func(in ssa.Instruction) {
				if sel, ok := in.(*ssa.Select); ok && sel.Blocking {
					for _, st := range sel.States {
						if st.Dir == types.SendOnly && loadsField(cs("query"))(st.Chan) {
							hand = sel
						}
					}
				}
			})
			construct := t.fn + " | reply awaited only after the hand-off to peerHandler"
			if hand == nil || !selectHasRecv(hand, loadsField(cs("quit"))) {
				c.fail(construct, c.P.Pos(rf.Pos()), "the query is not handed over by a select{ s.query <- msg | <-s.quit }")
				continue
			}
			// from the quit arm the bare receive is unreachable
			okv := true
			for i, st := range hand.States {
				if st.Dir != types.RecvOnly {
					continue
				}
				for _, r := range ir.Refs(hand) {
					e, ok := r.(*ssa.Extract)
					if !ok || e.Index != 0 {
						continue
					}
					for _, ib := range ir.IntEqBranches(e) {
						if ib.K != int64(i) {
							continue
						}
						ir.WalkEdge(ib.Edge(), nil, func(x ssa.Instruction) bool {
							if u, ok := x.(*ssa.UnOp); ok && u.Op.String() == "<-" {
								okv = false
							}
							return true
						})
					}
				}
			}
			c.verdict(okv, construct, c.P.Pos(rf.Pos()), "the bare receive is unreachable from the quit arm", "the reply is awaited although the query was never handed over (quit arm falls through to the receive)")
		}
		// the drain loop of peerHandler is non-blocking
		ph := c.fn("(*neutrino.ChainService).peerHandler")
		nb, blk := 0, 0
		ir.Instrs(ph, func(in ssa.Instruction) {
			if sel, ok := in.(*ssa.Select); ok && selectHasRecv(sel, loadsField(cs("query"))) {
				if sel.Blocking {
					blk++
				} else {
					nb++
				}
			}
		})
		c.verdict(blk == 1 && nb == 1, c.nm(ph)+" | one serving select, one non-blocking drain on s.query", c.P.Pos(ph.Pos()), "serving select + drain with default", fmt.Sprintf("peerHandler has %d blocking and %d non-blocking selects on s.query (a blocking drain would accept a query and never answer it)", blk, nb))
		// the serving select hands every query to handleQuery
		c.verdict(len(find(ph, callTo(c.method("neutrino", "ChainService", "handleQuery")))) == 1, c.nm(ph)+" | every received query goes to handleQuery", c.P.Pos(ph.Pos()), "one call", "peerHandler no longer passes received queries to handleQuery")
	})

	c.rule("C17.O1", "shutdown order: ChainService.Stop runs once; every subsystem is stopped before s.quit is closed and s.wg is waited; the work manager (last producer of filters) is stopped before the filter batch writer; every subsystem Stop closes its quit channel before it waits for its goroutines", func() {
		stop := c.fn(fnCSStop)
		add := atomicOp("Add")
		load := atomicOp("Load") // reading a flag is not a shutdown step
		var effects []ssa.Instruction
		ir.Instrs(stop, func(in ssa.Instruction) {
			if _, ok := in.(*ssa.Call); ok && !add(in) && !load(in) && !isLogCall(in) {
				effects = append(effects, in)
			}
		})
		g := equalIs("atomic.AddInt32(&s.shutdown,1) vs 1", find(stop, binops(eqOps, valIsAtomicOp("Add"), constIntIs(1))), true)
		c.guarded(stop, g, 1, "shutdown steps", effects, 8, gDominate)
		wmStop := callTo(c.method("query", "WorkManager", "Stop"))
		bwStop := callTo(c.method("chanutils", "BatchWriter", "Stop"))
		c.mustPrecede(stop, wmStop, "workManager.Stop()", bwStop, "filterBatchWriter.Stop()", 1)
		closeQuit := closes(loadsField(cs("quit")))
		wait := withArg(callTo(c.method("sync", "WaitGroup", "Wait")), 0, fieldAddrOf(cs("wg")))
		c.mustPrecede(stop, closeQuit, "close(s.quit)", wait, "s.wg.Wait()", 1)
		for _, sub := range []struct {
			name string
			sel  Sel
		}{
			{"broadcaster.Stop()", callTo(c.method("pushtx", "Broadcaster", "Stop"))},
			{"utxoScanner.Stop()", callTo(c.method("neutrino", "UtxoScanner", "Stop"))},
			{"workManager.Stop()", wmStop},
			{"blockSubscriptionMgr.Stop()", callTo(c.method("blockntfns", "SubscriptionManager", "Stop"))},
			{"blockManager.Stop()", callTo(c.method("neutrino", "blockManager", "Stop"))},
		} {
			c.mustPrecede(stop, sub.sel, sub.name, closeQuit, "close(s.quit)", 1)
		}
		// each subsystem: close(quit) before Wait
		for _, spec := range []struct{ fn, typ, pkg string }{
			{"(*neutrino.blockManager).Stop", "blockManager", "neutrino"},
			{"(*query.peerWorkManager).Stop", "peerWorkManager", "query"},
			{"(*blockntfns.SubscriptionManager).Stop", "SubscriptionManager", "blockntfns"},
			{"(*pushtx.Broadcaster).Stop", "Broadcaster", "pushtx"},
			{"(*chanutils.BatchWriter[T]).Stop", "BatchWriter", "chanutils"},
			{"(*chanutils.ConcurrentQueue[T]).Stop", "ConcurrentQueue", "chanutils"},
		} {
			top := c.fn(spec.fn)
			q := c.field(spec.pkg, spec.typ, "quit")
			wgf := c.field(spec.pkg, spec.typ, "wg")
			okv := false
			onceDo := c.method("sync", "Once", "Do")
			for _, f := range ir.WithClosures(top) {
				// the close itself, or a sync.Once.Do of a literal that
				// closes (a repeated Stop finds the channel closed already)
				isClose := func(in ssa.Instruction) bool {
					if closes(loadsField(q))(in) {
						return true
					}
					if !callTo(onceDo)(in) {
						return false
					}
					for _, cl := range closuresPassedTo(f, onceDo) {
						if len(find(cl, closes(loadsField(q)))) == 1 {
							for _, a := range argsOf(in) {
								if mc, ok := ir.Strip(a).(*ssa.MakeClosure); ok && mc.Fn == ssa.Value(cl) {
									return true
								}
							}
						}
					}
					return false
				}
				cq := find(f, isClose)
				w := find(f, withArg(callTo(c.method("sync", "WaitGroup", "Wait")), 0, fieldAddrOf(wgf)))
				if len(cq) == 1 && len(w) == 1 {
					bad := false
					ir.Walk(f.Blocks[0], 0, nil, func(in ssa.Instruction) bool {
						if in == cq[0] {
							return false
						}
						if in == w[0] {
							bad = true
						}
						return true
					})
					okv = !bad
				}
			}
			c.verdict(okv, spec.fn+" | close(quit) precedes wg.Wait()", c.P.Pos(top.Pos()), "quit closed before joining", spec.fn+" does not close its quit channel before waiting for its goroutines (the join can never complete)")
		}
		us := c.fn("(*neutrino.UtxoScanner).Stop")
		c.mustPrecede(us, closes(loadsField(c.field("neutrino", "UtxoScanner", "quit"))), "close(s.quit)", func(in ssa.Instruction) bool {
			sel, ok := in.(*ssa.Select)
			return ok && selectHasRecv(sel, loadsField(c.field("neutrino", "UtxoScanner", "shutdown")))
		}, "wait for batchManager (<-s.shutdown)", 1)
	})

	c.rule("C17.O2", "goroutine accounting: every `go` statement of the module is either tracked by a WaitGroup (Add precedes the go statement, the goroutine signals Done on every exit) that some Stop waits for, or is a tabled short-lived / externally-owned goroutine whose blocking operations all have an escape (C17.B1)", func() {
		exceptions := map[string]string{
			"(*neutrino.ChainService).BanPeer":               "disconnect helper: one query to the peer handler (select with quit) and a Disconnect call",
			"(*neutrino.ChainService).outboundPeerConnected": "peerDoneHandler: ends when the peer disconnects (peers are disconnected by peerHandler at shutdown), then selects with quit; also connmgr.NewConnReq (external)",
			"(*neutrino.ChainService).queryAllPeers":         "closer goroutine: waits the local WaitGroup of the per-peer goroutines (tracked, timer-bounded) and closes allQuit",
			"(*neutrino.ServerPeer).OnRead":                  "per-message delivery: one select{subscriber quit | send}; ends when the subscriber unsubscribes",
			"(*neutrino.UtxoScanner).Start":                  "batchManager is joined through its shutdown channel (defer close(s.shutdown); Stop waits for it)",
			"(*neutrino.blockManager).Stop":                  "wake-up ticker: ends when done is closed right after the join",
			"(*neutrino.delayedCloser).closeEventually":      "select{timer | quit}",
			"(*neutrino.ChainService).Start":                 "connManager.Start (external, stopped by connManager.Stop)",
			"(*neutrino.ChainService).handleDonePeerMsg":     "connManager.NewConnReq (external)",
			"(*neutrino.ChainService).handleQuery":           "connManager.Connect (external)",
		}
		g := c.graph()
		n := 0
		for _, gs := range g.goSites {
			n++
			top := c.nm(outermost(gs.fn))
			var tnames []string
			for _, t := range gs.targets {
				tnames = append(tnames, c.nm(t))
			}
			if len(tnames) == 0 {
				tnames = []string{gs.ext}
			}
			construct := fmt.Sprintf("go %s | in %s", join(tnames), c.nm(gs.fn))
			// tracked?
			addKeys := map[string]map[ssa.Instruction]bool{}
			ir.Instrs(gs.fn, func(in ssa.Instruction) {
				if k, m, ok := c.wgKey(in); ok && m == "Add" {
					if addKeys[k] == nil {
						addKeys[k] = map[ssa.Instruction]bool{}
					}
					addKeys[k][in] = true
				}
			})
			tracked := ""
			for _, t := range gs.targets {
				for k, addIns := range addKeys {
					// Done deferred at entry or on every exit
					isDone := func(in ssa.Instruction) bool {
						kk, m, ok := c.wgKey(in)
						return ok && m == "Done" && kk == k
					}
					doneAll := c.deferredBefore(t, start{t.Blocks[len(t.Blocks)-1], 0, "", nil}, isDone) || c.mustFollowOptQuietAll(t, isDone)
					hasDeferAtEntry := false
					for _, in := range t.Blocks[0].Instrs {
						if d, ok := in.(*ssa.Defer); ok && isDone(d) {
							hasDeferAtEntry = true
						}
					}
					if !(hasDeferAtEntry || doneAll) {
						continue
					}
					// Add precedes the go statement
					pre := false
					ir.Walk(gs.fn.Blocks[0], 0, nil, func(in ssa.Instruction) bool {
						if addIns[in] {
							return false
						}
						if in == ssa.Instruction(gs.in) {
							pre = true
						}
						return true
					})
					if !pre {
						tracked = k
					}
				}
			}
			if tracked != "" {
				c.pass(construct, c.at(gs.in), "tracked by "+tracked+" (Add before go, Done on every exit)", c.at(gs.in))
				continue
			}
			if why, ok := exceptions[top]; ok {
				c.pass(construct, c.at(gs.in), "tabled: "+why, c.at(gs.in))
				continue
			}
			c.fail(construct, c.at(gs.in), "goroutine started at "+c.at(gs.in)+" is neither tracked by a WaitGroup (Add before go + Done on every exit) nor a tabled short-lived goroutine: Stop cannot know when it has ended")
		}
		if n < 25 {
			c.undecided("go statements | floor", "", fmt.Sprintf("found %d go statements, need 25", n))
		}
	})

	c.rule("C17.O3", "condition-variable waits: every sync.Cond.Wait sits in a loop that, after waking, polls the owner's quit channel before waiting again; the owner's Stop keeps signalling that condition variable until the waiter has been joined", func() {
		waitM := c.method("sync", "Cond", "Wait")
		n := 0
		for _, fn := range c.P.Funcs {
			for _, w := range find(fn, callTo(waitM)) {
				n++
				construct := "cond wait | " + c.nm(fn) + " | " + c.chanKey(ir.CallOf(w).Args[0])
				poll := func(in ssa.Instruction) bool {
					sel, ok := in.(*ssa.Select)
					if !ok || sel.Blocking {
						return false
					}
					sent := c.sentKeys()
					for _, st := range sel.States {
						if e, _ := c.escapeArm(st, sent); e {
							return true
						}
					}
					return false
				}
				okv := ir.LoopHeaderOf(w.Block()) != nil
				if okv {
					okv = c.mustFollowIterQuiet(fn, afterInstr(c, w), poll)
				}
				c.verdict(okv, construct, c.at(w), "quit is polled after every wake-up", "sync.Cond.Wait at "+c.at(w)+" is not followed, inside its loop, by a poll of the quit channel: a shutdown wake-up would go back to waiting", c.at(w))
			}
		}
		if n < 3 {
			c.undecided("cond waits | floor", "", fmt.Sprintf("found %d sync.Cond.Wait calls, need 3", n))
		}
		// owners keep signalling
		bs := c.fn("(*neutrino.blockManager).Stop")
		bcast := c.method("sync", "Cond", "Broadcast")
		okB := false
		for _, f := range ir.WithClosures(bs) {
			for _, b := range find(f, callTo(bcast)) {
				if loadsField(c.field("neutrino", "blockManager", "newHeadersSignal"))(ir.CallOf(b).Args[0]) && ir.LoopHeaderOf(b.Block()) != nil {
					okB = true
				}
			}
		}
		c.verdict(okB, c.nm(bs)+" | newHeadersSignal is broadcast in a loop until the join completes", c.P.Pos(bs.Pos()), "ticker loop broadcasting", "blockManager.Stop no longer keeps waking cfHandler (it waits on newHeadersSignal and checks quit only after a wake-up)")
		us := c.fn("(*neutrino.UtxoScanner).Stop")
		sig := c.method("sync", "Cond", "Signal")
		okS := false
		for _, s := range find(us, callTo(sig)) {
			if ir.LoopHeaderOf(s.Block()) != nil {
				okS = true
			}
		}
		c.verdict(okS, c.nm(us)+" | cv is signalled in a loop until batchManager has shut down", c.P.Pos(us.Pos()), "signal loop", "UtxoScanner.Stop no longer keeps waking batchManager")
	})

	c.rule("C17.S1", "stop-order escape analysis: for each step of ChainService.Stop that joins goroutines, every blocking select reachable (module call graph, not crossing go statements) from a joined goroutine has an arm that is available at that step: a timer, a channel closed by this or an earlier step, a hand-off to (or reply from) a service loop that is still running, or a work-manager verdict once the work manager has been stopped", func() {
		stop := c.fn(fnCSStop)
		steps, err := c.stopSequence(stop, map[string][]string{"(*neutrino.UtxoScanner).Stop": {"go:(*neutrino.UtxoScanner).batchManager"}})
		if err != nil {
			c.undecided(c.nm(stop)+" | stop sequence", c.P.Pos(stop.Pos()), err.Error())
			return
		}
		c.R.Extra["stop_sequence"] = stepNames(steps)
		stepOf := func(sub string) int {
			for i, s := range steps {
				if strings.Contains(s.name, sub) {
					return i
				}
			}
			return -1
		}
		// service loops: hand-off channel -> the step that joins the loop
		services := map[string]int{
			"field:ChainService.query":                      stepOf("ChainService.wg.Wait"),
			"field:peerWorkManager.newBatches":              stepOf("peerWorkManager).Stop"),
			"field:SubscriptionManager.newSubscriptions":    stepOf("SubscriptionManager).Stop"),
			"field:SubscriptionManager.cancelSubscriptions": stepOf("SubscriptionManager).Stop"),
			"field:blockManager.peerChan":                   stepOf("blockManager).Stop"),
		}
		wm := stepOf("peerWorkManager).Stop")
		avail := func(step int, key string, send bool) (bool, string) {
			if j, ok := services[key]; ok && send && j >= 0 && step < j {
				return true, "service loop alive"
			}
			if !send && strings.HasPrefix(key, "call:") && strings.HasSuffix(key, ".Query") && wm >= 0 && step >= wm {
				return true, "verdict after work manager stop"
			}
			return false, ""
		}
		exceptions := map[string]string{
			"(*neutrino.ChainService).queryAllPeers":                "allQuit is closed after the local join of the per-peer goroutines, whose selects carry a timer arm",
			"(*neutrino.checkpointedCFHeadersQuery).handleResponse": "send on headerChan: capacity equals the number of requests and a sending response finishes its request",
			"(*neutrino.ChainService).ConnectedPeers":               "reply receive after the hand-off to peerHandler (alive until the last step, C17.X1)",
		}
		stuck := c.stopOrder(steps, avail)
		seen := map[string]bool{}
		for _, s := range stuck {
			name := c.nm(s.fn)
			if _, ok := exceptions[name]; ok {
				continue
			}
			construct := fmt.Sprintf("step %s | joined %s | %s select{%s}", steps[s.step].name, c.nm(s.root), name, join(s.arms))
			if seen[construct] {
				continue
			}
			seen[construct] = true
			path := c.pathTo(s.root, s.fn)
			c.fail(construct, c.at(s.in), fmt.Sprintf("%s waits for goroutine %s, which can be blocked in the select at %s (reached via %s); none of its arms is available at that step: %s. Stop can hang.", steps[s.step].name, c.nm(s.root), c.at(s.in), strings.Join(path, " -> "), join(s.arms)), c.at(s.in))
		}
		nRoots := 0
		for i, st := range steps {
			for _, r := range st.roots {
				nRoots++
				bad := false
				for _, s := range stuck {
					if s.step == i && s.root == r {
						if _, ok := exceptions[c.nm(s.fn)]; !ok {
							bad = true
						}
					}
				}
				if !bad {
					c.pass(fmt.Sprintf("step %s | joined %s", st.name, c.nm(r)), c.P.Pos(r.Pos()), fmt.Sprintf("every blocking select reachable from %s (%d functions) has an arm available at this step", c.nm(r), len(c.reachable(r))), fmt.Sprintf("%d functions", len(c.reachable(r))))
				}
			}
		}
		if nRoots < 12 {
			c.undecided("joined goroutine roots | floor", "", fmt.Sprintf("found %d joined roots, need 12", nRoots))
		}
		// supporting obligations of the exceptions
		gc := c.fn("(*neutrino.blockManager).getCheckpointedCFHeaders")
		okCap := false
		msgs := c.field("neutrino", "checkpointedCFHeadersQuery", "msgs")
		var msgsVal ssa.Value
		for _, st := range find(gc, storeToField(msgs)) {
			msgsVal = st.(*ssa.Store).Val
		}
		ir.Instrs(gc, func(in ssa.Instruction) {
			if mk, ok := in.(*ssa.MakeChan); ok {
				if call, ok := mk.Size.(*ssa.Call); ok && isBuiltin("len")(call) && msgsVal != nil && call.Call.Args[0] == msgsVal {
					okCap = true
				}
			}
		})
		c.verdict(okCap, c.nm(gc)+" | headerChan capacity = len(queryMsgs) = number of requests", c.P.Pos(gc.Pos()), "make(chan, len(queryMsgs)) with msgs: queryMsgs", "headerChan is no longer allocated with one slot per request: a verified response could block a worker that is being joined")
		qa := c.fn("(*neutrino.ChainService).queryAllPeers")
		okClose := false
		for _, f := range ir.WithClosures(qa)[1:] {
			w := find(f, func(in ssa.Instruction) bool { _, m, ok := c.wgKey(in); return ok && m == "Wait" })
			cl := find(f, isBuiltin("close"))
			if len(w) == 1 && len(cl) >= 1 {
				okClose = true
			}
		}
		c.verdict(okClose, c.nm(qa)+" | allQuit closed after joining the per-peer goroutines", c.P.Pos(qa.Pos()), "closer goroutine: wg.Wait(); close(allQuit)", "queryAllPeers no longer closes allQuit after its per-peer goroutines ended")
	})
}

// countToExit explores every path from block b to a function exit and returns
// the set of occurrence counts of sel (saturating at 2) with one exit position
// per count.
func (c *Ctx) countToExit(b *ssa.BasicBlock, sel Sel) map[int]string {
	type st struct {
		b *ssa.BasicBlock
		n int
	}
	seen := map[st]bool{}
	out := map[int]string{}
	var work []st
	work = append(work, st{b, 0})
	for len(work) > 0 {
		cur := work[len(work)-1]
		work = work[:len(work)-1]
		if seen[cur] {
			continue
		}
		seen[cur] = true
		n := cur.n
		for _, in := range cur.b.Instrs {
			if sel(in) {
				n = sat(n + 1)
			}
			if _, ok := in.(*ssa.Return); ok {
				out[n] = c.at(in)
			}
		}
		for _, s := range cur.b.Succs {
			work = append(work, st{s, n})
		}
	}
	return out
}

// wgKey: the WaitGroup a call of Add/Done/Wait works on.
func (c *Ctx) wgKey(in ssa.Instruction) (string, string, bool) {
	cc := ir.CallOf(in)
	if cc == nil {
		return "", "", false
	}
	fn := cc.StaticCallee()
	if fn == nil || fn.Pkg == nil || fn.Pkg.Pkg.Path() != "sync" || fn.Signature.Recv() == nil {
		return "", "", false
	}
	if fn.Signature.Recv().Type().String() != "*sync.WaitGroup" {
		return "", "", false
	}
	return c.addrKey(cc.Args[0]), fn.Name(), true
}

// fnBase: a function's bare name in baseline spelling.
func (c *Ctx) fnBase(fn *ssa.Function) string {
	if o := fn.Object(); o != nil {
		return c.on(o)
	}
	return fn.Name()
}

// addrKey names the variable an address denotes.
func (c *Ctx) addrKey(v ssa.Value) string {
	return c.addrKeyD(v, 0)
}

func (c *Ctx) addrKeyD(v ssa.Value, depth int) string {
	// a pointer held in a variable that is set once (`done := &wg`, also
	// when a goroutine's function literal captures that variable): the
	// variable the pointer denotes
	if ld, ok := ir.Strip(v).(*ssa.UnOp); ok && ld.Op == token.MUL && depth < 4 {
		cell := ld.X
		if fv, isFV := cell.(*ssa.FreeVar); isFV {
			cl := fv.Parent()
			idx := -1
			for i, x := range cl.FreeVars {
				if x == fv {
					idx = i
				}
			}
			var bound ssa.Value
			n := 0
			if outer := cl.Parent(); outer != nil && idx >= 0 {
				ir.Instrs(outer, func(in ssa.Instruction) {
					if mc, ok := in.(*ssa.MakeClosure); ok && mc.Fn == ssa.Value(cl) && idx < len(mc.Bindings) {
						bound = mc.Bindings[idx]
						n++
					}
				})
			}
			if n == 1 {
				cell = bound
			}
		}
		if al, isAl := cell.(*ssa.Alloc); isAl {
			var vals []ssa.Value
			for _, r := range ir.Refs(al) {
				if st, isSt := r.(*ssa.Store); isSt && st.Addr == ssa.Value(al) {
					vals = append(vals, st.Val)
				}
			}
			if len(vals) == 1 {
				if _, isPtr := vals[0].Type().Underlying().(*types.Pointer); isPtr {
					return c.addrKeyD(vals[0], depth+1)
				}
			}
		}
	}
	switch a := ir.Strip(v).(type) {
	case *ssa.FieldAddr:
		return c.fieldKey(a.X.Type(), ir.FieldOfAddr(a))
	case *ssa.Alloc:
		return "var:" + c.fnBase(outermost(a.Parent())) + "." + a.Comment
	case *ssa.FreeVar:
		return "var:" + c.fnBase(outermost(a.Parent())) + "." + a.Name()
	}
	return "?"
}

func (c *Ctx) debugGoSites() {
	g := c.graph()
	for _, gs := range g.goSites {
		var ts []string
		for _, t := range gs.targets {
			ts = append(ts, c.nm(t))
		}
		adds := ""
		ir.Instrs(gs.fn, func(in ssa.Instruction) {
			if k, m, ok := c.wgKey(in); ok && m == "Add" {
				adds += k + " "
			}
		})
		dones := ""
		for _, t := range gs.targets {
			ir.Instrs(t, func(in ssa.Instruction) {
				if k, m, ok := c.wgKey(in); ok && m == "Done" {
					dones += k + " "
				}
			})
		}
		fmt.Printf("GO %s in %s -> %v ext=%s adds=[%s] dones=[%s]\n", c.at(gs.in), c.nm(gs.fn), ts, gs.ext, adds, dones)
	}
}

func (c *Ctx) debugStop() {
	stop := c.fn(fnCSStop)
	steps, err := c.stopSequence(stop, map[string][]string{"(*neutrino.UtxoScanner).Stop": {"go:(*neutrino.UtxoScanner).batchManager"}})
	fmt.Println("ERR", err)
	for _, s := range stepNames(steps) {
		fmt.Println("STEP", s)
	}
	for _, s := range c.stopOrder(steps, func(int, string, bool) (bool, string) { return false, "" }) {
		fmt.Printf("STUCK step=%d root=%s fn=%s at=%s arms=%v\n", s.step+1, s.root.Name(), c.nm(s.fn), c.at(s.in), s.arms)
	}
}

// mustFollowOptQuietAll: from the entry of fn every path to a return passes b.
func (c *Ctx) mustFollowOptQuietAll(fn *ssa.Function, b Sel) bool {
	okv := true
	ir.Walk(fn.Blocks[0], 0, nil, func(in ssa.Instruction) bool {
		if b(in) {
			return false
		}
		if isExit(in) {
			okv = false
			return false
		}
		return true
	})
	return okv
}

// mustFollowIterQuiet: from s, within the innermost loop iteration, every path
// passes b before the next iteration; leaving the function is fine.
func (c *Ctx) mustFollowIterQuiet(fn *ssa.Function, s start, b Sel) bool {
	h := ir.LoopHeaderOf(s.b)
	if h == nil {
		return false
	}
	be := ir.BackEdgesTo(h)
	okv := true
	ir.WalkCtx(s.b, s.idx, s.pred, be, func(in ssa.Instruction) bool {
		if b(in) {
			return false
		}
		blk := in.Block()
		if in == blk.Instrs[len(blk.Instrs)-1] {
			for e := range be {
				if e.From == blk {
					okv = false
				}
			}
		}
		return true
	})
	return okv
}
