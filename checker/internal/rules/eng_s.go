package rules

import (
	"fmt"
	"go/types"
	"sort"
	"strings"

	"golang.org/x/tools/go/ssa"

	"verif/checker/internal/ir"
)

// ---- engine S: stop-order escape analysis ----

// stopStep is one call of the top-level Stop sequence.
type stopStep struct {
	in     ssa.Instruction
	name   string
	closes map[string]bool // channel keys closed by this step
	waits  map[string]bool // WaitGroup keys (and tabled join channels) this step waits on
	roots  []*ssa.Function // goroutine roots joined by this step
}

// calleeFuncs: module functions a call instruction may enter.
func (c *Ctx) calleeFuncs(in ssa.Instruction) []*ssa.Function {
	cc := ir.CallOf(in)
	if cc == nil {
		return nil
	}
	switch {
	case cc.IsInvoke():
		return c.implsOf(cc.Method.Origin())
	case cc.StaticCallee() != nil:
		return c.srcFunc(cc.StaticCallee())
	}
	return nil
}

// resolveKeys replaces parameter / captured-variable channel keys by the keys
// of the values bound to them at the module's call / go / closure sites.
func (c *Ctx) resolveKeys(fn *ssa.Function, v ssa.Value, depth int) []string {
	k := c.chanKey(v)
	if depth > 4 {
		return []string{k}
	}
	v = ir.Strip(v)
	switch x := v.(type) {
	case *ssa.Parameter:
		idx := -1
		for i, p := range fn.Params {
			if p == x {
				idx = i
			}
		}
		var out []string
		for _, caller := range c.P.Funcs {
			ir.Instrs(caller, func(in ssa.Instruction) {
				cc := ir.CallOf(in)
				if cc == nil {
					return
				}
				hit := false
				for _, t := range c.calleeFuncs(in) {
					if t == fn {
						hit = true
					}
				}
				if !hit {
					if mc, ok := cc.Value.(*ssa.MakeClosure); ok && mc.Fn == ssa.Value(fn) {
						hit = true
					}
				}
				if !hit {
					return
				}
				ai := idx
				if cc.IsInvoke() {
					ai = idx - 1 // receiver is not in Args
				}
				if ai >= 0 && ai < len(cc.Args) {
					out = append(out, c.resolveKeys(caller, cc.Args[ai], depth+1)...)
				}
			})
		}
		if len(out) > 0 {
			return out
		}
	case *ssa.UnOp:
		if fv, ok := x.X.(*ssa.FreeVar); ok {
			if ks := c.resolveFreeVar(fn, fv, depth); len(ks) > 0 {
				return ks
			}
		}
		if al, ok := x.X.(*ssa.Alloc); ok {
			var out []string
			for _, st := range ir.StoresTo(al) {
				out = append(out, c.resolveKeys(fn, st.Val, depth+1)...)
			}
			if len(out) > 0 {
				return out
			}
		}
	case *ssa.FreeVar:
		if ks := c.resolveFreeVar(fn, x, depth); len(ks) > 0 {
			return ks
		}
	case *ssa.Phi:
		var out []string
		for _, e := range x.Edges {
			out = append(out, c.resolveKeys(fn, e, depth+1)...)
		}
		return out
	}
	return []string{k}
}

func (c *Ctx) resolveFreeVar(fn *ssa.Function, fv *ssa.FreeVar, depth int) []string {
	p := fn.Parent()
	if p == nil {
		return nil
	}
	var out []string
	ir.Instrs(p, func(in ssa.Instruction) {
		mc, ok := in.(*ssa.MakeClosure)
		if !ok || mc.Fn != ssa.Value(fn) {
			return
		}
		for i, b := range mc.Bindings {
			if fn.FreeVars[i] != fv {
				continue
			}
			switch y := b.(type) {
			case *ssa.Alloc:
				for _, st := range ir.StoresTo(y) {
					out = append(out, c.resolveKeys(p, st.Val, depth+1)...)
				}
			default:
				out = append(out, c.resolveKeys(p, b, depth+1)...)
			}
		}
	})
	return out
}

// stopSequence extracts the ordered steps of the top-level Stop method.
func (c *Ctx) stopSequence(stop *ssa.Function, extraJoins map[string][]string) ([]stopStep, error) {
	g := c.graph()
	var calls []ssa.Instruction
	ir.Instrs(stop, func(in ssa.Instruction) {
		if _, ok := in.(*ssa.Call); !ok {
			return
		}
		cc := ir.CallOf(in)
		if b, ok := cc.Value.(*ssa.Builtin); ok {
			if b.Name() == "close" {
				calls = append(calls, in)
			}
			return
		}
		if _, _, ok := c.wgKey(in); ok {
			calls = append(calls, in)
			return
		}
		if len(c.calleeFuncs(in)) > 0 {
			calls = append(calls, in)
			return
		}
		cal := ir.Resolve(cc)
		if cal.Func != nil && cal.Func.Name() == "Stop" {
			calls = append(calls, in) // external subsystem (connmgr, addrmgr)
		}
	})
	// order by dominance
	// a before b: b is reachable from a and not the other way round (the
	// function has no loops around these calls; conditional steps are ordered
	// too)
	reach := func(a, b ssa.Instruction) bool {
		if a.Block() == b.Block() {
			return ir.IndexIn(a) < ir.IndexIn(b)
		}
		r := ir.Reach([]*ssa.BasicBlock{a.Block()}, nil)
		return r[b.Block()]
	}
	before := func(a, b ssa.Instruction) bool { return reach(a, b) && !reach(b, a) }
	for i := range calls {
		for j := range calls {
			if i != j && !before(calls[i], calls[j]) && !before(calls[j], calls[i]) {
				return nil, fmt.Errorf("calls at %s and %s are not ordered (loop or parallel branches)", c.at(calls[i]), c.at(calls[j]))
			}
		}
	}
	sort.SliceStable(calls, func(i, j int) bool { return before(calls[i], calls[j]) })
	var steps []stopStep
	for _, in := range calls {
		st := stopStep{in: in, closes: map[string]bool{}, waits: map[string]bool{}}
		cc := ir.CallOf(in)
		if b, ok := cc.Value.(*ssa.Builtin); ok && b.Name() == "close" {
			st.name = "close(" + c.chanKey(cc.Args[0]) + ")"
			st.closes[c.chanKey(cc.Args[0])] = true
		} else if k, m, ok := c.wgKey(in); ok {
			st.name = k + "." + m + "()"
			if m == "Wait" {
				st.waits[k] = true
			}
		} else {
			fs := c.calleeFuncs(in)
			st.name = describeCall(in)
			if len(fs) > 0 {
				st.name = c.nm(fs[0])
			} else {
				cal := ir.Resolve(cc)
				if cal.Func != nil {
					st.name = cal.Func.FullName()
				}
			}
			for f := range c.reachable(fs...) {
				ir.Instrs(f, func(x ssa.Instruction) {
					if isBuiltin("close")(x) {
						st.closes[c.chanKey(ir.CallOf(x).Args[0])] = true
					}
					if k, m, ok := c.wgKey(x); ok && m == "Wait" {
						st.waits[k] = true
					}
				})
				for _, j := range extraJoins[c.nm(f)] {
					st.waits[j] = true
				}
			}
		}
		steps = append(steps, st)
	}
	// roots joined by each step: go targets whose Add key is waited on
	for i := range steps {
		seen := map[*ssa.Function]bool{}
		for _, gs := range g.goSites {
			keys := map[string]bool{}
			ir.Instrs(gs.fn, func(in ssa.Instruction) {
				if k, m, ok := c.wgKey(in); ok && m == "Add" {
					keys[k] = true
				}
			})
			for _, t := range gs.targets {
				keys["go:"+c.nm(t)] = true
			}
			for k := range keys {
				if steps[i].waits[k] {
					for _, t := range gs.targets {
						if !seen[t] {
							seen[t] = true
							steps[i].roots = append(steps[i].roots, t)
						}
					}
				}
			}
		}
		sort.Slice(steps[i].roots, func(a, b int) bool { return c.nm(steps[i].roots[a]) < c.nm(steps[i].roots[b]) })
	}
	return steps, nil
}

// stuckSelect describes a blocking select reachable from a joined root none
// of whose arms is available at that step.
type stuckSelect struct {
	step int
	root *ssa.Function
	fn   *ssa.Function
	in   ssa.Instruction
	arms []string
}

// stopOrder runs the analysis; avail(step, armKey, dir) lets the rule table
// declare additional availability classes.
func (c *Ctx) stopOrder(steps []stopStep, avail func(step int, key string, send bool) (bool, string)) []stuckSelect {
	closed := map[string]bool{}
	var out []stuckSelect
	for i, st := range steps {
		for k := range st.closes {
			closed[k] = true
		}
		for _, root := range st.roots {
			for f := range c.reachable(root) {
				ir.Instrs(f, func(in ssa.Instruction) {
					sel, ok := in.(*ssa.Select)
					if !ok || !sel.Blocking {
						return
					}
					okv := false
					var arms []string
					for _, a := range sel.States {
						send := a.Dir == types.SendOnly
						if !send && isTimeChan(a.Chan.Type()) {
							okv = true
						}
						for _, k := range c.resolveKeys(f, a.Chan, 0) {
							d := "<-"
							if send {
								d = "->"
							}
							arms = append(arms, d+k)
							if !send && closed[k] {
								okv = true
							}
							if ok2, _ := avail(i, k, send); ok2 {
								okv = true
							}
						}
					}
					if !okv {
						sort.Strings(arms)
						out = append(out, stuckSelect{i, root, f, in, arms})
					}
				})
			}
		}
	}
	return out
}

func stepNames(steps []stopStep) []string {
	var out []string
	for i, s := range steps {
		var cl, rt []string
		for k := range s.closes {
			cl = append(cl, k)
		}
		sort.Strings(cl)
		for _, r := range s.roots {
			rt = append(rt, r.Name())
		}
		out = append(out, fmt.Sprintf("%d:%s closes{%s} joins{%s}", i+1, s.name, strings.Join(cl, ","), strings.Join(rt, ",")))
	}
	return out
}
