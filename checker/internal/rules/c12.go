package rules

import (
	"fmt"
	"go/token"
	"go/types"
	"sort"

	"golang.org/x/tools/go/ssa"

	"verif/checker/internal/ir"
)

func init() {
	register(&Prop{ID: "C12", Run: runC12, NotDecided: []string{
		"scheduling preference between workers and batches",
		"that hard timeouts fire without results arriving (they are polled only when a result arrives; relevant to F10)",
		"behaviour over schedules of peer connects/disconnects and timers (only per-iteration verdict accounting is decided)",
	}})
}

const (
	fnDispatch = "(*query.peerWorkManager).workDispatcher"
	fnQuery    = "(*query.peerWorkManager).Query"
	fnWRun     = "(*query.worker).Run"
)

// fieldNamedAddr: v is (a load of) the address of a field with this name
// (used for the dispatcher's function-local batchProgress type).
func (c *Ctx) loadsFieldNamed(structName, field string) func(ssa.Value) bool {
	return func(v ssa.Value) bool {
		return ir.DerivesFrom(v, func(x ssa.Value) bool {
			fa, ok := x.(*ssa.FieldAddr)
			if !ok {
				return false
			}
			f := ir.FieldOfAddr(fa)
			if f == nil || c.on(f) != field {
				return false
			}
			t := fa.X.Type()
			if p, ok := t.Underlying().(*types.Pointer); ok {
				t = p.Elem()
			}
			n, ok := t.(*types.Named)
			return ok && c.on(n.Obj()) == structName
		})
	}
}

func runC12(c *Ctx) {
	c.rule("C12.X1", verdictPerBatchDoc, func() { c.verdictPerBatch() })

	c.rule("C12.V1", batchRendezvousDoc, func() { c.batchRendezvous() })

	c.rule("C12.G1", "success only if every request was answered: the nil verdict is sent only when batch.rem == 0, and rem is decremented only for a result without error", func() {
		fn := c.fn(fnDispatch)
		sendNil := func(in ssa.Instruction) bool {
			s, ok := in.(*ssa.Send)
			return ok && c.loadsFieldNamed("batchProgress", "errChan")(s.Chan) && ir.IsNil(s.X)
		}
		remStore := func(in ssa.Instruction) bool {
			st, ok := in.(*ssa.Store)
			if !ok {
				return false
			}
			fa, ok := st.Addr.(*ssa.FieldAddr)
			if !ok || c.on(ir.FieldOfAddr(fa)) != "rem" {
				return false
			}
			b, ok := st.Val.(*ssa.BinOp)
			return ok && b.Op == token.SUB
		}
		nilSends := find(fn, sendNil)
		decs := find(fn, remStore)
		remCmp := find(fn, binops(eqOps, c.loadsFieldNamed("batchProgress", "rem"), constIntIs(0)))
		c.guarded(fn, equalIs("batch.rem vs 0", remCmp, true), 1, "errChan <- nil", nilSends, 1, gDominate)
		errF := c.field("query", "jobResult", "err")
		nilCmps := find(fn, binops(eqOps, func(v ssa.Value) bool { return isLoadOfPath(v, errF) }, ir.IsNil))
		g := equalIs("result.err vs nil", nilCmps, true)
		eff := append(append([]ssa.Instruction{}, nilSends...), decs...)
		c.guarded(fn, g, 1, "rem-- / errChan <- nil", eff, 2, gDominate)
		c.verdict(len(decs) == 1, c.nm(fn)+" | rem decremented at one site", c.P.Pos(fn.Pos()), "one decrement", fmt.Sprintf("%d decrements of batch.rem", len(decs)), c.ats(decs)...)
		// rem starts as len(batch.requests)
		okInit := false
		ir.Instrs(fn, func(in ssa.Instruction) {
			st, ok := in.(*ssa.Store)
			if !ok {
				return
			}
			fa, ok := st.Addr.(*ssa.FieldAddr)
			if !ok || c.on(ir.FieldOfAddr(fa)) != "rem" {
				return
			}
			if call, ok := st.Val.(*ssa.Call); ok && isBuiltin("len")(call) && loadsField(c.field("query", "batch", "requests"))(call.Call.Args[0]) {
				okInit = true
			}
		})
		c.verdict(okInit, c.nm(fn)+" | rem initialised to len(batch.requests)", c.P.Pos(fn.Pos()), "rem = len(batch.requests)", "batch.rem is not initialised to the number of requests of the batch")
	})

	c.rule("C12.O1", noJobLostDoc, func() { c.noJobLost() })

	c.rule("C12.V2", "a job's verdict is its own: the error worker.Run reports with a job (jobResult.err) is decided in the iteration that ran that job; no value reaches it from an earlier iteration of the job loop (an error left over from a timed-out or cancelled job would fail every later job the peer answered, and with it batches that were fully answered)", func() {
		fn := c.fn(fnWRun)
		errF := c.field("query", "jobResult", "err")
		var stores []ssa.Instruction
		for _, in := range find(fn, storeToField(errF)) {
			stores = append(stores, in)
		}
		construct := c.nm(fn) + " | jobResult.err is not carried over from an earlier job"
		if len(stores) == 0 {
			c.fail(construct, c.P.Pos(fn.Pos()), "no jobResult with an err field is built in worker.Run")
			return
		}
		var bad []string
		for _, st := range stores {
			// outermost loop around the report
			var outer *ssa.BasicBlock
			for _, b := range fn.Blocks {
				if len(ir.BackEdgesTo(b)) > 0 && ir.LoopBlocks(b)[st.Block()] {
					if outer == nil || len(ir.LoopBlocks(b)) > len(ir.LoopBlocks(outer)) {
						outer = b
					}
				}
			}
			if outer == nil {
				continue
			}
			seen := map[ssa.Value]bool{}
			var walk func(v ssa.Value, d int)
			walk = func(v ssa.Value, d int) {
				if v == nil || seen[v] || d > 12 {
					return
				}
				seen[v] = true
				switch x := v.(type) {
				case *ssa.Phi:
					if x.Block() == outer {
						bad = append(bad, "the error reported at "+c.at(st)+" can be a value carried around the job loop (merge at the loop head, "+c.at(x)+")")
						return
					}
					for _, e := range x.Edges {
						walk(e, d+1)
					}
				case *ssa.UnOp:
					if al, ok := x.X.(*ssa.Alloc); ok && x.Op == token.MUL {
						// a variable cell: declared outside the loop and not reset in it?
						if !ir.LoopBlocks(outer)[al.Block()] {
							reset := false
							for _, s2 := range ir.StoresTo(al) {
								if ir.LoopBlocks(outer)[s2.Block()] && ir.IsNil(s2.Val) && s2.Block().Dominates(st.Block()) {
									reset = true
								}
							}
							if !reset {
								bad = append(bad, "the error reported at "+c.at(st)+" is read from a variable declared outside the job loop and not reset in it ("+c.at(al)+")")
							}
						}
					}
				case *ssa.ChangeInterface:
					walk(x.X, d+1)
				case *ssa.MakeInterface:
					walk(x.X, d+1)
				}
			}
			walk(st.(*ssa.Store).Val, 0)
		}
		sort.Strings(bad)
		bad = uniq(bad)
		c.verdict(len(bad) == 0, construct, c.P.Pos(fn.Pos()), "every value that can reach jobResult.err is produced in the current iteration", join(bad), c.ats(stores)...)
	})

	c.rule("C12.V3", "a result is counted for the batch that issued the request: the dispatcher reads the batch of a result from currentQueries by the result's job index, with a plain lookup whose answer for a missing key is batch number 0 (a real batch: the first one accepted); so an entry leaves currentQueries only under the index of the result just received - purging the entries of a finished batch would attribute its late results to batch 0", func() {
		fn := c.fn(fnDispatch)
		isQueries := func(v ssa.Value) bool {
			m, ok := v.Type().Underlying().(*types.Map)
			if !ok {
				return false
			}
			kb, ok1 := m.Key().Underlying().(*types.Basic)
			vb, ok2 := m.Elem().Underlying().(*types.Basic)
			return ok1 && ok2 && kb.Kind() == types.Uint64 && vb.Kind() == types.Uint64
		}
		idxF := c.field("query", "queryJob", "index")
		jr := c.field("query", "peerWorkManager", "jobResults")
		fromResult := func(v ssa.Value) bool {
			return loadsField(idxF)(v) && ir.InfluencedBy(v, func(x ssa.Value) bool {
				switch y := x.(type) {
				case *ssa.Select:
					for _, st := range y.States {
						if st.Dir == types.RecvOnly && loadsField(jr)(st.Chan) {
							return true
						}
					}
				case *ssa.UnOp:
					return y.Op == token.ARROW && loadsField(jr)(y.X)
				}
				return false
			})
		}
		funcs := append([]*ssa.Function{fn}, fn.AnonFuncs...)
		var plain, dels, badDel []ssa.Instruction
		for _, f := range funcs {
			ir.Instrs(f, func(in ssa.Instruction) {
				if lk, ok := in.(*ssa.Lookup); ok && !lk.CommaOk && isQueries(lk.X) {
					plain = append(plain, in)
				}
			})
			for _, d := range find(f, mapDelete(isQueries)) {
				dels = append(dels, d)
				if f != fn || !fromResult(ir.CallOf(d).Args[1]) {
					badDel = append(badDel, d)
				}
			}
		}
		construct := c.nm(fn) + " | currentQueries entries leave only with their own result"
		if len(plain) == 0 {
			// every lookup says whether the key was there: nothing to protect
			c.verdict(true, construct, c.P.Pos(fn.Pos()), "currentQueries is only read with the comma-ok form", "")
			return
		}
		c.verdict(len(badDel) == 0 && len(dels) >= 1, construct, c.P.Pos(fn.Pos()),
			fmt.Sprintf("%d delete(s) on currentQueries, each keyed by the index of the result just received", len(dels)),
			fmt.Sprintf("an entry of currentQueries is deleted under a key other than the index of the result just received (%d of %d deletes): a later result of that request is looked up with the plain form at %s and lands on batch 0", len(badDel), len(dels), join(c.ats(plain))), c.ats(badDel)...)
	})

	c.rule("C12.G2", attemptBoundedDoc, func() { c.attemptBounded() })
	c.rule("C12.O5", "an idle batch still gets its verdict: the idle timer's callback carries the generation that was current when the callback was made, and the dispatcher ignores wakes of any other generation; so wherever the dispatcher moves a batch's progressGen on, a new callback (time.AfterFunc) is made before the function returns - a timer that is merely Reset keeps posting the old generation and the batch never times out once it has progressed", func() {
		fn := c.fn(fnDispatch)
		afterFunc := c.funcObj("time", "AfterFunc")
		isGen := func(in ssa.Instruction) bool {
			st, ok := in.(*ssa.Store)
			if !ok {
				return false
			}
			fa, ok := st.Addr.(*ssa.FieldAddr)
			if !ok {
				return false
			}
			f := ir.FieldOfAddr(fa)
			return f != nil && c.on(f) == "progressGen"
		}
		n := 0
		for _, f := range append([]*ssa.Function{fn}, fn.AnonFuncs...) {
			var starts []start
			for _, st := range find(f, isGen) {
				starts = append(starts, afterInstr(c, st))
			}
			if len(starts) == 0 {
				continue
			}
			n += len(starts)
			c.mustFollow(f, "progressGen moved on", starts, callTo(afterFunc), "time.AfterFunc (a callback carrying the new generation)", nil, 1)
		}
		c.verdict(n >= 1, c.nm(fn)+" | the idle generation is moved on somewhere", c.P.Pos(fn.Pos()), fmt.Sprintf("%d store(s) to progressGen", n), "progressGen is never moved on: a wake left over from an earlier idle window counts as current")
	})

	c.rule("C12.G3", "the retry cap is a cap: in the failed-result arm of workDispatcher a job goes back on the work heap only on an edge where the batch has no retry limit (noRetryMax) or the job's tries were found below the batch's maxRetries by an ordering comparison of the two (tries < maxRetries, in whatever spelling); a cap worked out by unsigned subtraction and tested for equality wraps around for the boundary cap 0 and re-issues the request another 255 times", func() {
		fn := c.fn(fnDispatch)
		push := c.funcObj("container/heap", "Push")
		jobF := c.field("query", "jobResult", "job")
		triesF := c.field("query", "queryJob", "tries")
		repush := func(in ssa.Instruction) bool {
			if !callTo(push)(in) {
				return false
			}
			return ir.DerivesFrom(ir.CallOf(in).Args[1], func(x ssa.Value) bool {
				fa, ok := x.(*ssa.FieldAddr)
				return ok && ir.FieldOfAddr(fa) == jobF
			})
		}
		isTries := func(v ssa.Value) bool { return isLoadOfPath(v, triesF) }
		isMax := c.loadsFieldNamed("batchProgress", "maxRetries")
		isMaxLoad := func(v ssa.Value) bool {
			_, isLoad := ir.Strip(v).(*ssa.UnOp)
			return isLoad && isMax(v)
		}
		g, odd := relGuard("job.tries < batch.maxRetries", fn, isTries, isMaxLoad, token.LSS)
		if len(odd) > 0 {
			c.fail(c.nm(fn)+" | comparison shape of the retry cap", c.P.Pos(fn.Pos()), "tries and maxRetries are compared by "+join(odd)+": the cap is off by one")
		}
		// noRetryMax = true
		noMax := c.loadsFieldNamed("batchProgress", "noRetryMax")
		gn := guard{name: "batch.noRetryMax = true"}
		ir.Instrs(fn, func(in ssa.Instruction) {
			u, ok := in.(*ssa.UnOp)
			if !ok || u.Op != token.MUL || !noMax(u) {
				return
			}
			gn.found++
			for _, b := range ir.TrueBranches(u) {
				if b.Pol < 0 {
					if b.Via != nil {
						gn.weak = append(gn.weak, guardSite{b, in})
					}
					continue
				}
				gn.sites = append(gn.sites, guardSite{b, in})
			}
		})
		c.guarded(fn, unionGuard("no retry limit, or tries < maxRetries", g, gn), 2, "heap.Push(work, result.job) (re-issue the request)", find(fn, repush), 1, gDominate)
	})

	c.rule("C12.O3", workerPerPeerDoc, func() { c.workerPerPeer() })

	c.rule("C12.O4", "a job is never handed to a dead worker: the dispatcher's blocking hand-over (the select that sends on worker.NewJob()) also waits on that worker's exit signal (activeWorker.onExit), and on that arm forgets the worker and moves on; a peer that disconnected between jobs would otherwise block the dispatcher, and every batch with it, until shutdown", func() {
		fn := c.fn(fnDispatch)
		newJob := c.method("query", "Worker", "NewJob")
		onExit := c.field("query", "activeWorker", "onExit")
		aw := c.P.Named("query", "activeWorker")
		var hand []*ssa.Select
		ir.Instrs(fn, func(in ssa.Instruction) {
			sel, ok := in.(*ssa.Select)
			if !ok || !sel.Blocking {
				return
			}
			for _, st := range sel.States {
				if st.Dir == types.SendOnly && ir.DerivesFrom(st.Chan, valIsCallTo(newJob)) {
					hand = append(hand, sel)
				}
			}
		})
		construct := c.nm(fn) + " | hand-over select has the worker's exit arm"
		if len(hand) != 1 {
			c.fail(construct, c.P.Pos(fn.Pos()), fmt.Sprintf("%d blocking select(s) sending on worker.NewJob(), 1 tabled", len(hand)))
			return
		}
		sel := hand[0]
		// the worker record the job channel was taken from
		recOf := func(v ssa.Value) ssa.Value {
			var rec ssa.Value
			ir.InfluencedBy(v, func(x ssa.Value) bool {
				if fa, ok := x.(*ssa.FieldAddr); ok {
					if p, ok := fa.X.Type().Underlying().(*types.Pointer); ok && aw != nil && types.Identical(p.Elem(), aw) {
						rec = fa.X
						return true
					}
				}
				return false
			})
			return rec
		}
		var jobRec ssa.Value
		exitIdx := -1
		for _, st := range sel.States {
			if st.Dir == types.SendOnly && ir.DerivesFrom(st.Chan, valIsCallTo(newJob)) {
				jobRec = recOf(st.Chan)
			}
		}
		for i, st := range sel.States {
			if st.Dir == types.RecvOnly && loadsField(onExit)(st.Chan) && recOf(st.Chan) != nil && recOf(st.Chan) == jobRec {
				exitIdx = i
			}
		}
		c.verdict(exitIdx >= 0, construct, c.at(sel), "case <-r.onExit in the same select, for the same worker record", "the hand-over select does not wait on the exit signal of the worker it hands the job to", c.at(sel))
		if exitIdx < 0 {
			return
		}
		// on that arm the worker is forgotten
		var starts []start
		for _, r := range ir.Refs(sel) {
			e, ok := r.(*ssa.Extract)
			if !ok || e.Index != 0 {
				continue
			}
			for _, ib := range ir.IntEqBranches(e) {
				if ib.K == int64(exitIdx) {
					starts = append(starts, atEdge(c, ib.Edge(), "worker exited at "+c.at(sel)))
				}
			}
		}
		del := mapDelete(func(m ssa.Value) bool {
			mt, ok := m.Type().Underlying().(*types.Map)
			return ok && aw != nil && elemIs(mt.Elem(), aw)
		})
		c.mustFollowIter(fn, "the worker's exit signal", starts, del, "delete(workers, addr)", nil, 1)
	})

	c.rule("C12.O7", "an answered request is answered: whatever else the handler reports, a response it declares Finished ends the job - in worker.Run every path from the return of job.HandleResp back to the wait for the next message passes the test of progress.Finished; a Finished behind a Progressed test is ignored for handlers that answer a single-response request with Finished alone (Progressed is documented for multi-response requests): the job then times out, the dispatcher re-issues a request that was answered, and the batch fails at the retry limit although every request was answered", func() {
		fn := c.fn(fnWRun)
		handle := c.field("query", "Request", "HandleResp")
		fin := c.field("query", "Progress", "Finished")
		var calls []ssa.Instruction
		ir.Instrs(fn, func(in ssa.Instruction) {
			call, ok := in.(*ssa.Call)
			if !ok || call.Call.IsInvoke() || call.Call.StaticCallee() != nil {
				return
			}
			if loadsField(handle)(call.Call.Value) {
				calls = append(calls, in)
			}
		})
		tests := map[ssa.Instruction]bool{}
		ir.Instrs(fn, func(in ssa.Instruction) {
			isFin := false
			if f, ok := in.(*ssa.Field); ok && ir.FieldOfValue(f) == fin {
				isFin = true
			}
			if u, ok := in.(*ssa.UnOp); ok && u.Op == token.MUL {
				if fa, ok := u.X.(*ssa.FieldAddr); ok && ir.FieldOfAddr(fa) == fin {
					isFin = true
				}
			}
			if !isFin {
				return
			}
			for _, b := range ir.TrueBranches(in.(ssa.Value)) {
				if b.Pol == 0 {
					tests[b.If] = true
				}
			}
		})
		var starts []start
		for _, x := range calls {
			starts = append(starts, afterInstr(c, x))
		}
		c.mustFollowIter(fn, "job.HandleResp returned", starts, func(in ssa.Instruction) bool { return tests[in] }, "the test of progress.Finished", nil, 1)
	})

	c.rule("C12.O8", "a job leaves the work heap only into a worker's hands: in the dispatcher every heap.Pop of the work queue lies behind the arm of the hand-over select on which a worker took the job (the send on worker.NewJob() succeeded); popped before that, a job offered only to workers that have all exited meanwhile is in nobody's hands: its batch keeps counting it, nobody re-issues it, and the batch never gets a verdict", func() {
		fn := c.fn(fnDispatch)
		newJob := c.method("query", "Worker", "NewJob")
		pop := c.funcObj("container/heap", "Pop")
		pops := find(fn, callTo(pop))
		arm := map[ir.Edge]bool{}
		ir.Instrs(fn, func(y ssa.Instruction) {
			sel, isSel := y.(*ssa.Select)
			if !isSel {
				return
			}
			for i, st := range sel.States {
				if st.Dir != types.SendOnly || !ir.DerivesFrom(st.Chan, valIsCallTo(newJob)) {
					continue
				}
				for _, rr := range ir.Refs(sel) {
					if ex, isEx := rr.(*ssa.Extract); isEx && ex.Index == 0 {
						for _, ib := range ir.IntEqBranches(ex) {
							if ib.K == int64(i) {
								arm[ib.Edge()] = true
							}
						}
					}
				}
			}
		})
		var bad []string
		for _, p := range pops {
			ok := false
			if ir.UnderMissingInput(p) {
				// dropping an entry that is not a job at all (the type
				// assertion on it failed) loses no job
				continue
			}
			for q := range arm {
				if ir.EdgeDominates(fn, q, p.Block()) {
					ok = true
				}
			}
			if !ok {
				bad = append(bad, "heap.Pop at "+c.at(p)+" is not behind a successful hand-over")
			}
		}
		sort.Strings(bad)
		c.verdict(len(bad) == 0 && len(pops) >= 1 && len(arm) >= 1, c.nm(fn)+" | the work heap is popped only behind a successful hand-over", c.P.Pos(fn.Pos()), fmt.Sprintf("%d pop(s), each behind the send arm of the hand-over select", len(pops)), join(bad)+" (or no pop / hand-over found)", c.ats(pops)...)
	})

	c.rule("C12.G4", "a worker leaves the dispatcher's table only on its own exit signal: every delete from the workers map lies behind the arm of a select that received from an activeWorker's onExit channel; the table is keyed by peer address and a reconnecting peer overwrites its entry, so a delete prompted by anything else (a 'peer disconnected' result of the old worker, say) can hit the new, live worker: the unanswered request stays on the heap, is never handed out again, and the batch gets no verdict", func() {
		fn := c.fn(fnDispatch)
		aw := c.P.Named("query", "activeWorker")
		onExit := c.field("query", "activeWorker", "onExit")
		del := mapDelete(func(m ssa.Value) bool {
			mt, ok := m.Type().Underlying().(*types.Map)
			return ok && aw != nil && elemIs(mt.Elem(), aw)
		})
		dels := find(fn, del)
		arm := map[ir.Edge]bool{}
		ir.Instrs(fn, func(y ssa.Instruction) {
			sel, isSel := y.(*ssa.Select)
			if !isSel {
				return
			}
			for i, st := range sel.States {
				if st.Dir != types.RecvOnly || !loadsField(onExit)(st.Chan) {
					continue
				}
				for _, rr := range ir.Refs(sel) {
					if ex, isEx := rr.(*ssa.Extract); isEx && ex.Index == 0 {
						for _, ib := range ir.IntEqBranches(ex) {
							if ib.K == int64(i) {
								arm[ib.Edge()] = true
							}
						}
					}
				}
			}
		})
		var bad []string
		for _, d := range dels {
			ok := false
			for q := range arm {
				if ir.EdgeDominates(fn, q, d.Block()) {
					ok = true
				}
			}
			if !ok {
				bad = append(bad, "delete(workers, ..) at "+c.at(d)+" is not behind a worker's exit signal")
			}
		}
		sort.Strings(bad)
		c.verdict(len(bad) == 0 && len(dels) >= 1, c.nm(fn)+" | workers are forgotten only on <-onExit", c.P.Pos(fn.Pos()), fmt.Sprintf("%d delete(s), each behind an onExit arm", len(dels)), join(bad)+" (or no delete found)", c.ats(dels)...)
	})

	c.rule("C12.O6", "the record behind the preference is kept and used: every result without error that the dispatcher counts reaches Ranking.Reward for the answering peer within the iteration, whatever becomes of the batch afterwards (the answer that completes a batch included - for the single-request batches that is every answer); every failed result reaches Ranking.Punish or ResetRanking; the hand-over loop runs over the slice Ranking.Order was applied to, and behind it; in the stock ranking Order sorts ascending by score, Reward lowers and Punish raises the score", func() {
		fn := c.fn(fnDispatch)
		errF := c.field("query", "jobResult", "err")
		peerF := c.field("query", "jobResult", "peer")
		nilCmps := find(fn, binops(eqOps, func(v ssa.Value) bool { return isLoadOfPath(v, errF) }, ir.IsNil))
		g := equalIs("result.err vs nil", nilCmps, true)
		ofPeer := func(in ssa.Instruction) bool {
			cc := ir.CallOf(in)
			if cc == nil || len(cc.Args) == 0 {
				return false
			}
			return ir.InfluencedBy(cc.Args[len(cc.Args)-1], func(x ssa.Value) bool {
				fa, ok := x.(*ssa.FieldAddr)
				return ok && ir.FieldOfAddr(fa) == peerF
			})
		}
		reward := allOf(callTo(c.method("query", "PeerRanking", "Reward")), ofPeer)
		punish := allOf(anyOf(callTo(c.method("query", "PeerRanking", "Punish")), callTo(c.method("query", "PeerRanking", "ResetRanking"))), ofPeer)
		c.mustFollowIter(fn, "result.err == nil", c.successEdges(g), reward, "Ranking.Reward(result.peer.Addr())", nil, 1)
		c.mustFollowIter(fn, "result.err != nil", c.failEdges(g), punish, "Ranking.Punish / ResetRanking(result.peer.Addr())", nil, 1)

		// the hand-over runs over the ordered slice
		newJob := c.method("query", "Worker", "NewJob")
		order := c.method("query", "PeerRanking", "Order")
		orders := find(fn, callTo(order))
		construct := c.nm(fn) + " | the hand-over loop runs over the ranked slice"
		var hand []*ssa.Select
		ir.Instrs(fn, func(in ssa.Instruction) {
			sel, ok := in.(*ssa.Select)
			if !ok {
				return
			}
			for _, st := range sel.States {
				if st.Dir == types.SendOnly && ir.DerivesFrom(st.Chan, valIsCallTo(newJob)) {
					hand = append(hand, sel)
				}
			}
		})
		if len(hand) == 0 || len(orders) == 0 {
			c.fail(construct, c.P.Pos(fn.Pos()), fmt.Sprintf("%d hand-over select(s), %d call(s) of Ranking.Order in the dispatcher", len(hand), len(orders)))
			return
		}
		for _, sel := range hand {
			ok := false
			why := "no call of Ranking.Order dominates the hand-over"
			for _, o := range orders {
				if !(o.Block().Dominates(sel.Block()) && o.Block() != sel.Block()) || ir.LoopHeaderOf(o.Block()) == nil {
					continue
				}
				why = "the worker handed the job is not taken from the slice Ranking.Order sorted"
				// the peer key that selects the worker record comes out of the ordered slice
				ordered := ir.CallOf(o).Args[len(ir.CallOf(o).Args)-1]
				roots := map[ssa.Value]bool{}
				var collect func(v ssa.Value, d int)
				collect = func(v ssa.Value, d int) {
					if d > 6 || roots[v] {
						return
					}
					roots[v] = true
					switch x := v.(type) {
					case *ssa.Phi:
						for _, e := range x.Edges {
							collect(e, d+1)
						}
					case *ssa.UnOp:
						collect(x.X, d+1)
					case *ssa.Slice:
						collect(x.X, d+1)
					case *ssa.ChangeType:
						collect(x.X, d+1)
					}
				}
				collect(ordered, 0)
				for _, st := range sel.States {
					if st.Dir != types.SendOnly {
						continue
					}
					fromOrdered := func(x ssa.Value) bool {
						ia, isIA := x.(*ssa.IndexAddr)
						if !isIA {
							return false
						}
						if roots[ia.X] {
							return true
						}
						if u, isU := ia.X.(*ssa.UnOp); isU && u.Op == token.MUL {
							if ou, isOU := ordered.(*ssa.UnOp); isOU && ou.Op == token.MUL && ou.X == u.X {
								return true
							}
						}
						return false
					}
					if ir.InfluencedBy(st.Chan, func(x ssa.Value) bool {
						if fromOrdered(x) {
							return true
						}
						lk, isL := x.(*ssa.Lookup)
						return isL && ir.DerivesFrom(lk.Index, fromOrdered)
					}) {
						ok = true
					}
				}
			}
			c.verdict(ok, construct, c.at(sel), "Ranking.Order(freeWorkers) dominates the select inside the dispatch loop, and the worker is looked up by an element of that slice", why, c.ats(orders)...)
		}

		// the stock ranking: ascending order, reward lowers, punish raises
		rank := c.field("query", "peerRanking", "rank")
		dir := func(name string, want token.Token) {
			m := c.fn("(*query.peerRanking)." + name)
			var ops []string
			good := false
			ir.Instrs(m, func(in ssa.Instruction) {
				mu, ok := in.(*ssa.MapUpdate)
				if !ok || !loadsField(rank)(mu.Map) {
					return
				}
				if b, ok := mu.Value.(*ssa.BinOp); ok {
					ops = append(ops, b.Op.String()+" at "+c.at(in))
					if _, isC := b.Y.(*ssa.Const); isC && b.Op == want {
						if lk, isL := ir.Strip(b.X).(*ssa.Lookup); isL && loadsField(rank)(lk.X) {
							good = true
						} else if ex, isE := b.X.(*ssa.Extract); isE {
							if lk, isL := ex.Tuple.(*ssa.Lookup); isL && loadsField(rank)(lk.X) {
								good = true
							}
						}
					}
				}
			})
			c.verdict(good && len(ops) == 1, c.nm(m)+" | moves the peer's score the way Order reads it", c.P.Pos(m.Pos()), "rank[peer] = score "+want.String()+" const, the only arithmetic store", fmt.Sprintf("stores to rank: %v; tabled: one store of score %s const", ops, want))
		}
		dir("Reward", token.SUB)
		dir("Punish", token.ADD)
		om := c.fn("(*query.peerRanking).Order")
		var less *ssa.Function
		for _, af := range om.AnonFuncs {
			if af.Signature.Results().Len() == 1 && af.Signature.Params().Len() == 2 {
				less = af
			}
		}
		constructO := c.nm(om) + " | sorts ascending: less(i, j) is score(i) < score(j)"
		if less == nil {
			c.fail(constructO, c.P.Pos(om.Pos()), "no less closure found in Order")
			return
		}
		// which parameter each operand of the returned comparison derives from
		uses := func(v ssa.Value, p *ssa.Parameter) bool {
			seen := map[ssa.Value]bool{}
			var rec func(v ssa.Value) bool
			rec = func(v ssa.Value) bool {
				if v == nil || seen[v] {
					return false
				}
				seen[v] = true
				if v == ssa.Value(p) {
					return true
				}
				switch x := v.(type) {
				case *ssa.Phi:
					for _, e := range x.Edges {
						if rec(e) {
							return true
						}
					}
				case *ssa.Extract:
					return rec(x.Tuple)
				case *ssa.Lookup:
					return rec(x.Index)
				case *ssa.UnOp:
					return rec(x.X)
				case *ssa.IndexAddr:
					return rec(x.Index)
				case *ssa.Index:
					return rec(x.Index)
				case *ssa.Convert:
					return rec(x.X)
				case *ssa.ChangeType:
					return rec(x.X)
				}
				return false
			}
			return rec(v)
		}
		side := func(v ssa.Value) int {
			r := -1
			for i, p := range less.Params {
				if uses(v, p) {
					if r >= 0 {
						return -2
					}
					r = i
				}
			}
			return r
		}
		okLess := false
		seen := 0
		ir.Instrs(less, func(in ssa.Instruction) {
			ret, ok := in.(*ssa.Return)
			if !ok || len(ret.Results) != 1 {
				return
			}
			b, ok := ret.Results[0].(*ssa.BinOp)
			if !ok {
				return
			}
			seen++
			l, r := side(b.X), side(b.Y)
			switch {
			case b.Op == token.LSS && l == 0 && r == 1, b.Op == token.GTR && l == 1 && r == 0:
				okLess = true
			}
		})
		c.verdict(okLess && seen == 1, constructO, c.P.Pos(less.Pos()), "return score(peers[i]) < score(peers[j])", "the less function of Order does not compare the score of i below the score of j: the best-scored (lowest) peers no longer come first")
	})

	c.rule("C12.O2", "worker.Run: once a job is received every path to the next job or to a return passes the send of a result (select with the results channel), except through the quit arm; an error-free result is sent only after the handler reported Finished", func() {
		fn := c.fn(fnWRun)
		nextJob := c.field("query", "worker", "nextJob")
		quitP := func(v ssa.Value) bool { return v == ssa.Value(fn.Params[2]) }
		resultsP := func(v ssa.Value) bool { return v == ssa.Value(fn.Params[1]) }
		// quit arms and the job-received arm
		cut := ir.Cut{}
		var starts []start
		ir.Instrs(fn, func(in ssa.Instruction) {
			sel, ok := in.(*ssa.Select)
			if !ok {
				return
			}
			for i, st := range sel.States {
				for _, r := range ir.Refs(sel) {
					e, ok := r.(*ssa.Extract)
					if !ok || e.Index != 0 {
						continue
					}
					for _, ib := range ir.IntEqBranches(e) {
						if ib.K != int64(i) {
							continue
						}
						if st.Dir == types.RecvOnly && quitP(st.Chan) {
							cut[ib.Edge()] = true
						}
						if st.Dir == types.RecvOnly && loadsField(nextJob)(st.Chan) {
							starts = append(starts, atEdge(c, ib.Edge(), "job received at "+c.at(in)))
						}
					}
				}
			}
		})
		sendRes := sendOn(resultsP)
		c.mustFollowIter(fn, "job received", starts, sendRes, "select{results <- &jobResult{..} | <-quit}", cut, 1)
		// the quit escape exists on the result send
		okQuit := false
		for _, s := range find(fn, sendRes) {
			if sel, ok := s.(*ssa.Select); ok {
				for _, st := range sel.States {
					if st.Dir == types.RecvOnly && quitP(st.Chan) {
						okQuit = true
					}
				}
			}
		}
		c.verdict(okQuit, c.nm(fn)+" | the result send can be abandoned on quit", c.P.Pos(fn.Pos()), "select with quit arm", "the result send has no quit alternative")
		// nil error only after Finished
		fin := c.field("query", "Progress", "Finished")
		var finVals []ssa.Instruction
		ir.Instrs(fn, func(in ssa.Instruction) {
			if f, ok := in.(*ssa.Field); ok && ir.FieldOfValue(f) == fin {
				finVals = append(finVals, in)
			}
			if u, ok := in.(*ssa.UnOp); ok {
				if fa, ok := u.X.(*ssa.FieldAddr); ok && ir.FieldOfAddr(fa) == fin && u.Op == token.MUL {
					finVals = append(finVals, in)
				}
			}
		})
		gFin := guard{name: "progress.Finished = true", found: len(finVals)}
		for _, in := range finVals {
			for _, b := range ir.TrueBranches(in.(ssa.Value)) {
				gFin.sites = append(gFin.sites, guardSite{b, in})
			}
		}
		errF := c.field("query", "jobResult", "err")
		construct := c.nm(fn) + " | a nil jobResult.err is sent only after HandleResp reported Finished"
		if len(gFin.sites) == 0 {
			c.fail(construct, c.P.Pos(fn.Pos()), "progress.Finished is never tested")
			return
		}
		cutFin := gFin.cut()
		reach := ir.ReachEntry(fn, cutFin)
		var bad []string
		for _, st := range find(fn, storeToField(errF)) {
			v := st.(*ssa.Store).Val
			var walk func(v ssa.Value, from *ssa.BasicBlock, depth int)
			seen := map[ssa.Value]bool{}
			walk = func(v ssa.Value, from *ssa.BasicBlock, depth int) {
				if depth > 10 || seen[v] {
					return
				}
				seen[v] = true
				switch x := v.(type) {
				case *ssa.Phi:
					for i, e := range x.Edges {
						pred := x.Block().Preds[i]
						if !reach[pred] {
							continue // only reachable through the Finished edge
						}
						viaCut := false
						for si, sb := range pred.Succs {
							if sb == x.Block() && cutFin[ir.Edge{From: pred, Succ: si}] {
								viaCut = true
							}
						}
						if viaCut {
							continue
						}
						walk(e, pred, depth+1)
					}
				case *ssa.Const:
					if x.IsNil() {
						bad = append(bad, "nil error can reach the result built at "+c.at(st)+" along a path that does not take the Finished edge")
					}
				}
			}
			walk(v, st.Block(), 0)
		}
		c.verdict(len(bad) == 0, construct, c.P.Pos(fn.Pos()), "without the Finished edge every error value reaching the result is non-nil", join(bad))
	})
}

const workerPerPeerDoc = "every available peer gets a worker: in workDispatcher, from the receive of a newly connected peer every path through the iteration registers a worker for it in the workers table and starts its Run goroutine (a connected peer that is dropped here can never be handed the re-issued requests)"

// workerPerPeer: see workerPerPeerDoc.
func (c *Ctx) workerPerPeer() {
	fn := c.fn(fnDispatch)
	var peerT types.Type
	if n := c.P.Named("query", "Peer"); n != nil {
		peerT = n
	}
	starts := c.selectArms(fn, func(sel *ssa.Select, st *ssa.SelectState) bool {
		if st.Dir != types.RecvOnly {
			return false
		}
		ch, ok := st.Chan.Type().Underlying().(*types.Chan)
		return ok && peerT != nil && types.Identical(ch.Elem(), peerT)
	}, "peer connected")
	aw := c.P.Named("query", "activeWorker")
	reg := mapUpdate(func(m ssa.Value) bool {
		mt, ok := m.Type().Underlying().(*types.Map)
		return ok && aw != nil && elemIs(mt.Elem(), aw)
	})
	c.mustFollowIter(fn, "peer connected", starts, reg, "workers[peer.Addr()] = &activeWorker{..}", nil, 1)
	c.graph()
	run := c.method("query", "Worker", "Run")
	goRun := func(in ssa.Instruction) bool {
		g, ok := in.(*ssa.Go)
		if !ok {
			return false
		}
		for _, t := range c.valueFuncs(g.Call.Value, 0) {
			if len(find(t, callTo(run))) > 0 {
				return true
			}
		}
		return false
	}
	c.mustFollowIter(fn, "peer connected", starts, goRun, "go r.Run(w.jobResults, w.quit)", nil, 1)
}

const batchRendezvousDoc = "handing a batch to the dispatcher is a rendezvous: every channel stored into peerWorkManager.newBatches is made without capacity, so a send that succeeds in Query means the dispatcher has registered the batch (and owes it a verdict, C12.X1); a batch parked in a buffer when the dispatcher exits would never get one"

// batchRendezvous: see batchRendezvousDoc.
func (c *Ctx) batchRendezvous() {
	nb := c.field("query", "peerWorkManager", "newBatches")
	n := 0
	okv := true
	var sites []string
	for _, fn := range c.P.Funcs {
		ir.Instrs(fn, func(in ssa.Instruction) {
			st, ok := in.(*ssa.Store)
			if !ok {
				return
			}
			fa, ok := st.Addr.(*ssa.FieldAddr)
			if !ok || ir.FieldOfAddr(fa) != nb {
				return
			}
			n++
			sites = append(sites, c.at(in))
			mk, isMk := ir.Strip(st.Val).(*ssa.MakeChan)
			if !isMk {
				okv = false
				return
			}
			if k, isC := ir.ConstInt(mk.Size); !isC || k != 0 {
				okv = false
			}
		})
	}
	c.verdict(okv && n >= 1, "query.peerWorkManager.newBatches | made without capacity", "", fmt.Sprintf("%d allocation(s), all unbuffered", n), "peerWorkManager.newBatches is (or may be) a buffered channel: Query's send succeeds while the batch is still in the buffer; when the dispatcher exits, its shutdown sweep only answers registered batches and the buffered ones never get a verdict", sites...)
}

const attemptBoundedDoc = "an unanswered request is given to another peer: inside worker.Run's response loop the attempt timer is armed anew (time.NewTimer / Timer.Reset / time.After) only behind progress.Progressed = true; a message the handler did not count as progress never extends the attempt, so a peer that answers with anything else still times out and the request is re-issued"

// attemptBounded: see attemptBoundedDoc (C12.G2, also C06.O3).
func (c *Ctx) attemptBounded() {
	fn := c.fn(fnWRun)
	handle := c.field("query", "Request", "HandleResp")
	prog := c.field("query", "Progress", "Progressed")
	// the response loop: innermost loop around the HandleResp call
	var loop *ssa.BasicBlock
	ir.Instrs(fn, func(in ssa.Instruction) {
		call, ok := in.(*ssa.Call)
		if !ok || call.Call.IsInvoke() || call.Call.StaticCallee() != nil {
			return
		}
		if loadsField(handle)(call.Call.Value) {
			loop = ir.LoopHeaderOf(in.Block())
		}
	})
	construct := c.nm(fn) + " | the attempt timer is re-armed only on progress"
	if loop == nil {
		c.fail(construct, c.P.Pos(fn.Pos()), "no loop around the job.HandleResp call")
		return
	}
	inLoop := ir.LoopBlocks(loop)
	newTimer := c.funcObj("time", "NewTimer")
	after := c.funcObj("time", "After")
	afterFunc := c.funcObj("time", "AfterFunc")
	reset := c.method("time", "Timer", "Reset")
	var arms []ssa.Instruction
	for _, in := range find(fn, callTo(newTimer, after, afterFunc, reset)) {
		if inLoop[in.Block()] {
			arms = append(arms, in)
		}
	}
	var vals []ssa.Instruction
	ir.Instrs(fn, func(in ssa.Instruction) {
		if f, ok := in.(*ssa.Field); ok && ir.FieldOfValue(f) == prog {
			vals = append(vals, in)
		}
		if u, ok := in.(*ssa.UnOp); ok && u.Op == token.MUL {
			if fa, ok := u.X.(*ssa.FieldAddr); ok && ir.FieldOfAddr(fa) == prog {
				vals = append(vals, in)
			}
		}
	})
	g := guard{name: "progress.Progressed = true", found: len(vals)}
	for _, in := range vals {
		for _, b := range ir.TrueBranches(in.(ssa.Value)) {
			if b.Pol < 0 {
				continue
			}
			g.sites = append(g.sites, guardSite{b, in})
		}
	}
	if len(arms) == 0 {
		// the attempt is never extended: nothing to protect
		c.verdict(true, construct, c.P.Pos(fn.Pos()), "the response loop never re-arms the timer", "")
		return
	}
	c.guarded(fn, g, 1, "re-arm the attempt timer", arms, 1, gDominate)
}

const noJobLostDoc = "no job lost: when a result carries an error, every path through the iteration either sends the batch's verdict or pushes the job back on the work heap and restores its currentQueries entry"

// noJobLost: see noJobLostDoc.
func (c *Ctx) noJobLost() {
	fn := c.fn(fnDispatch)
	errF := c.field("query", "jobResult", "err")
	nilCmps := find(fn, binops(eqOps, func(v ssa.Value) bool { return isLoadOfPath(v, errF) }, ir.IsNil))
	g := equalIs("result.err vs nil", nilCmps, true)
	send := sendOn(c.loadsFieldNamed("batchProgress", "errChan"))
	push := c.funcObj("container/heap", "Push")
	jobF := c.field("query", "jobResult", "job")
	repush := func(in ssa.Instruction) bool {
		if !callTo(push)(in) {
			return false
		}
		return ir.DerivesFrom(ir.CallOf(in).Args[1], func(x ssa.Value) bool {
			fa, ok := x.(*ssa.FieldAddr)
			return ok && ir.FieldOfAddr(fa) == jobF
		})
	}
	c.mustFollowIter(fn, "result.err != nil", c.failEdges(g), anyOf(send, repush), "verdict send / heap.Push(work, result.job)", nil, 1)
	// ... and no result is put aside before it is looked at: from the arm that
	// receives a result every path through the iteration reaches the lookup of
	// the result's batch (a result skipped as "stale" takes its job with it:
	// the job is neither re-issued nor counted, and its batch never ends)
	jrF := c.field("query", "peerWorkManager", "jobResults")
	arms := c.selectArms(fn, func(sel *ssa.Select, st *ssa.SelectState) bool {
		return st.Dir == types.RecvOnly && loadsField(jrF)(st.Chan)
	}, "a job result received")
	isBatchMap := func(v ssa.Value) bool {
		m, ok := v.Type().Underlying().(*types.Map)
		if !ok {
			return false
		}
		p, ok := m.Elem().(*types.Pointer)
		if !ok {
			return false
		}
		n, ok := p.Elem().(*types.Named)
		return ok && c.on(n.Obj()) == "batchProgress"
	}
	isLookup := func(in ssa.Instruction) bool {
		l, ok := in.(*ssa.Lookup)
		return ok && isBatchMap(l.X)
	}
	c.mustFollowIter(fn, "a job result received", arms, isLookup, "the lookup of the result's batch (currentBatches[batchNum])", nil, 1)
	// after a re-push the query index is re-registered
	isQueries := func(v ssa.Value) bool {
		m, ok := v.Type().Underlying().(*types.Map)
		if !ok {
			return false
		}
		kb, ok1 := m.Key().Underlying().(*types.Basic)
		vb, ok2 := m.Elem().Underlying().(*types.Basic)
		return ok1 && ok2 && kb.Kind() == types.Uint64 && vb.Kind() == types.Uint64
	}
	var starts []start
	for _, p := range find(fn, repush) {
		starts = append(starts, afterInstr(c, p))
	}
	c.mustFollowIter(fn, "job pushed back", starts, mapUpdate(isQueries), "currentQueries[job.index] = batchNum", nil, 1)
}

const verdictPerBatchDoc = "workDispatcher: on every path through one iteration of the dispatch loop a verdict is sent on a batch's errChan exactly when that batch is deleted from currentBatches, and at most once; Query allocates the verdict channel with capacity 1 so that send never blocks; the exit sweep answers every batch still registered"

// verdictPerBatch: see verdictPerBatchDoc.
func (c *Ctx) verdictPerBatch() {
	fn := c.fn(fnDispatch)
	send := sendOn(c.loadsFieldNamed("batchProgress", "errChan"))
	// currentBatches: the map whose values are *batchProgress
	isBatches := func(v ssa.Value) bool {
		m, ok := v.Type().Underlying().(*types.Map)
		if !ok {
			return false
		}
		p, ok := m.Elem().(*types.Pointer)
		if !ok {
			return false
		}
		n, ok := p.Elem().(*types.Named)
		return ok && c.on(n.Obj()) == "batchProgress"
	}
	del := mapDelete(isBatches)
	// the dispatch loop: innermost loop around the select that receives job results
	jr := c.field("query", "peerWorkManager", "jobResults")
	var header *ssa.BasicBlock
	ir.Instrs(fn, func(in ssa.Instruction) {
		if sel, ok := in.(*ssa.Select); ok {
			for _, st := range sel.States {
				if st.Dir == types.RecvOnly && loadsField(jr)(st.Chan) {
					header = ir.LoopHeaderOf(in.Block())
				}
			}
		}
	})
	if header == nil {
		panic(anchorErr{"dispatch loop (select receiving from jobResults) in workDispatcher"})
	}
	c.pairedOnce(fn, header, send, "send on batch.errChan", del, "delete(currentBatches, n)", 5)
	// registration: exactly one insert per received batch
	ins := find(fn, mapUpdate(isBatches))
	c.verdict(len(ins) == 1, c.nm(fn)+" | a batch is registered once, in the newBatches arm", c.P.Pos(fn.Pos()), "one insert into currentBatches", fmt.Sprintf("%d inserts into currentBatches", len(ins)), c.ats(ins)...)
	// the exit sweep
	var sweep *ssa.Function
	ir.Instrs(fn, func(in ssa.Instruction) {
		d, ok := in.(*ssa.Defer)
		if !ok {
			return
		}
		if mc, ok := d.Call.Value.(*ssa.MakeClosure); ok {
			if f, ok := mc.Fn.(*ssa.Function); ok && len(find(f, send)) > 0 {
				sweep = f
			}
		}
	})
	okSweep := sweep != nil
	if okSweep {
		// the send sits in a range over the batches map
		okSweep = false
		for _, s := range find(sweep, send) {
			if ir.LoopHeaderOf(s.Block()) != nil {
				okSweep = true
			}
		}
		n := 0
		ir.Instrs(sweep, func(in ssa.Instruction) {
			if r, ok := in.(*ssa.Range); ok && isBatches(r.X) {
				n++
			}
		})
		okSweep = okSweep && n == 1
	}
	c.verdict(okSweep, c.nm(fn)+" | deferred exit sweep sends a verdict to every batch still in currentBatches", c.P.Pos(fn.Pos()), "deferred closure ranges over currentBatches and sends on errChan", "the dispatcher's exit no longer answers the batches still registered (callers of Query would wait forever)")
	// Query
	q := c.fn(fnQuery)
	var mk *ssa.MakeChan
	ir.Instrs(q, func(in ssa.Instruction) {
		if m, ok := in.(*ssa.MakeChan); ok {
			mk = m
		}
	})
	okCap := false
	if mk != nil {
		k, isC := ir.ConstInt(mk.Size)
		okCap = isC && k == 1
	}
	c.verdict(okCap, c.nm(q)+" | verdict channel allocated with capacity 1", c.P.Pos(q.Pos()), "make(chan error, 1)", "the verdict channel is not buffered with capacity 1: the dispatcher's single send could block")
	// Query: either hands the batch over or answers itself
	nb := c.field("query", "peerWorkManager", "newBatches")
	okQ := false
	ir.Instrs(q, func(in ssa.Instruction) {
		sel, ok := in.(*ssa.Select)
		if !ok || !sel.Blocking {
			return
		}
		hasSend, hasQuit := false, false
		for _, st := range sel.States {
			if st.Dir == types.SendOnly && loadsField(nb)(st.Chan) {
				hasSend = true
			}
			if st.Dir == types.RecvOnly && loadsField(c.field("query", "peerWorkManager", "quit"))(st.Chan) {
				hasQuit = true
			}
		}
		okQ = hasSend && hasQuit
	})
	// (the "no" of a guard clause on an argument that must be present is
	// not the answer to a batch)
	sends := find(q, func(in ssa.Instruction) bool { _, ok := in.(*ssa.Send); return ok && !ir.InGuardClause(in) })
	c.verdict(okQ && len(sends) == 1, c.nm(q)+" | batch handed to the dispatcher or answered with the shutdown error", c.P.Pos(q.Pos()), "select{newBatches<-b | <-quit: errChan<-ErrWorkManagerShuttingDown}", "Query no longer guarantees an answer when the dispatcher is gone")
}
