package inl

import (
	"fmt"
	"go/ast"
	"go/token"
	"go/types"

	"golang.org/x/tools/go/ast/astutil"
	"golang.org/x/tools/go/packages"
)

// BaselineType reports whether the named type existed in the pinned tree
// (possibly under another name). Set by the driver.
var BaselineType = func(pkgPath, name string) bool { return true }

// normalizeLocalStructs replaces a local value of a struct type that is new
// relative to the pinned tree by one local variable per field, when the
// function uses the value only by selecting its fields:
//
//	q := &blockQuery{hash: h}          var q_hash = h; var q_found *btcutil.Block
//	.. q.hash .. q.found = b ..   =>   .. q_hash .. q_found = b ..
//
// (function literals that used q now capture the variables). This is what a
// "state of the callback in a small struct" refactoring looks like once the
// methods of that struct have been inlined back into the literals that stood
// in their place; in the pinned tree the callback's state WAS such captured
// locals. Nothing else about the struct is observable when every use is a
// field selection.
func (in *inliner) normalizeLocalStructs(pkgs []*packages.Package, excluded func(string) bool) {
	for _, pk := range pkgs {
		for _, f := range pk.Syntax {
			if excluded(in.fset.Position(f.Pos()).Filename) {
				continue
			}
			n := &normCtx{in: in, pkg: pk, file: f}
			for _, d := range f.Decls {
				if fd, ok := d.(*ast.FuncDecl); ok && fd.Body != nil {
					n.sroa(fd)
				}
			}
		}
	}
}

type sroaCand struct {
	v      *types.Var
	st     *types.Struct
	named  *types.Named
	def    ast.Stmt
	lit    *ast.CompositeLit // may be nil (new(T), var v T)
	prefix string
	ok     bool
}

func (n *normCtx) sroa(fd *ast.FuncDecl) {
	pk := n.pkg
	newStruct := func(t types.Type) (*types.Named, *types.Struct) {
		if p, ok := t.(*types.Pointer); ok {
			t = p.Elem()
		}
		named, ok := t.(*types.Named)
		if !ok || named.Obj().Pkg() != pk.Types || named.TypeArgs().Len() > 0 || named.Obj().Exported() {
			return nil, nil
		}
		st, ok := named.Underlying().(*types.Struct)
		if !ok || BaselineType(pk.PkgPath, named.Obj().Name()) {
			return nil, nil
		}
		for i := 0; i < st.NumFields(); i++ {
			if st.Field(i).Embedded() {
				return nil, nil
			}
		}
		return named, st
	}
	cands := map[*types.Var]*sroaCand{}
	ast.Inspect(fd.Body, func(x ast.Node) bool {
		switch s := x.(type) {
		case *ast.AssignStmt:
			if s.Tok != token.DEFINE || len(s.Lhs) != 1 || len(s.Rhs) != 1 {
				return true
			}
			id, ok := s.Lhs[0].(*ast.Ident)
			if !ok || id.Name == "_" {
				return true
			}
			v, _ := pk.TypesInfo.Defs[id].(*types.Var)
			if v == nil {
				return true
			}
			named, st := newStruct(v.Type())
			if named == nil {
				return true
			}
			rhs := s.Rhs[0]
			if u, ok := rhs.(*ast.UnaryExpr); ok && u.Op == token.AND {
				rhs = u.X
			}
			c := &sroaCand{v: v, st: st, named: named, def: s, ok: true}
			switch r := rhs.(type) {
			case *ast.CompositeLit:
				for _, e := range r.Elts {
					kv, isKV := e.(*ast.KeyValueExpr)
					if !isKV {
						return true
					}
					if _, isId := kv.Key.(*ast.Ident); !isId {
						return true
					}
				}
				c.lit = r
			case *ast.CallExpr:
				if fid, ok := r.Fun.(*ast.Ident); !ok || fid.Name != "new" || len(r.Args) != 1 {
					return true
				} else if _, isB := pk.TypesInfo.Uses[fid].(*types.Builtin); !isB {
					return true
				}
			default:
				return true
			}
			cands[v] = c
		case *ast.DeclStmt:
			gd, ok := s.Decl.(*ast.GenDecl)
			if !ok || gd.Tok != token.VAR || len(gd.Specs) != 1 {
				return true
			}
			vs := gd.Specs[0].(*ast.ValueSpec)
			if len(vs.Names) != 1 || len(vs.Values) != 0 || vs.Names[0].Name == "_" {
				return true
			}
			v, _ := pk.TypesInfo.Defs[vs.Names[0]].(*types.Var)
			if v == nil {
				return true
			}
			if _, isPtr := v.Type().(*types.Pointer); isPtr {
				return true
			}
			named, st := newStruct(v.Type())
			if named == nil {
				return true
			}
			cands[v] = &sroaCand{v: v, st: st, named: named, def: s, ok: true}
		}
		return true
	})
	if len(cands) == 0 {
		return
	}
	// every use selects a field
	selX := map[*ast.Ident]*ast.SelectorExpr{}
	ast.Inspect(fd.Body, func(x ast.Node) bool {
		if se, ok := x.(*ast.SelectorExpr); ok {
			if id, ok := se.X.(*ast.Ident); ok {
				selX[id] = se
			}
		}
		return true
	})
	ast.Inspect(fd.Body, func(x ast.Node) bool {
		id, ok := x.(*ast.Ident)
		if !ok {
			return true
		}
		v, _ := pk.TypesInfo.Uses[id].(*types.Var)
		c := cands[v]
		if c == nil {
			return true
		}
		se := selX[id]
		if se == nil {
			c.ok = false
			return true
		}
		sel := pk.TypesInfo.Selections[se]
		if sel == nil || sel.Kind() != types.FieldVal || len(sel.Index()) != 1 {
			c.ok = false
		}
		return true
	})
	q := &qualifier{pk: pk, file: n.file}
	typeExpr := func(t types.Type) ast.Expr {
		e, ok := parseTypeExpr(types.TypeString(t, q.qual))
		if !ok || q.failed {
			return nil
		}
		return e
	}
	repl := map[ast.Stmt][]ast.Stmt{}
	names := map[*types.Var]map[string]string{} // var -> field -> local name
	for _, c := range cands {
		if !c.ok {
			continue
		}
		n.in.nfresh++
		c.prefix = fmt.Sprintf("inlS%d_%s_", n.in.nfresh, c.v.Name())
		pos := c.def.Pos()
		inits := map[string]ast.Expr{}
		var order []string
		if c.lit != nil {
			for _, e := range c.lit.Elts {
				kv := e.(*ast.KeyValueExpr)
				name := kv.Key.(*ast.Ident).Name
				inits[name] = kv.Value
				order = append(order, name)
			}
		}
		for i := 0; i < c.st.NumFields(); i++ {
			if _, has := inits[c.st.Field(i).Name()]; !has {
				order = append(order, c.st.Field(i).Name())
			}
		}
		var out []ast.Stmt
		fieldNames := map[string]string{}
		bad := false
		for _, fname := range order {
			var ft types.Type
			for i := 0; i < c.st.NumFields(); i++ {
				if c.st.Field(i).Name() == fname {
					ft = c.st.Field(i).Type()
				}
			}
			te := typeExpr(ft)
			if ft == nil || te == nil {
				bad = true
				break
			}
			local := c.prefix + fname
			fieldNames[fname] = local
			spec := &ast.ValueSpec{Names: []*ast.Ident{{NamePos: pos, Name: local}}, Type: te}
			if init, has := inits[fname]; has {
				spec.Values = []ast.Expr{init}
			}
			out = append(out, &ast.DeclStmt{Decl: &ast.GenDecl{TokPos: pos, Tok: token.VAR, Specs: []ast.Spec{spec}}})
			out = append(out, &ast.AssignStmt{Lhs: []ast.Expr{&ast.Ident{NamePos: pos, Name: "_"}}, TokPos: pos, Tok: token.ASSIGN, Rhs: []ast.Expr{&ast.Ident{NamePos: pos, Name: local}}})
		}
		if bad {
			c.ok = false
			continue
		}
		repl[c.def] = out
		names[c.v] = fieldNames
	}
	if len(repl) == 0 {
		return
	}
	astutil.Apply(fd.Body, func(cur *astutil.Cursor) bool {
		switch x := cur.Node().(type) {
		case *ast.SelectorExpr:
			id, ok := x.X.(*ast.Ident)
			if !ok {
				return true
			}
			v, _ := pk.TypesInfo.Uses[id].(*types.Var)
			if fn := names[v]; fn != nil {
				if local, ok := fn[x.Sel.Name]; ok {
					cur.Replace(&ast.Ident{NamePos: x.Pos(), Name: local})
					return false
				}
			}
		}
		return true
	}, nil)
	// the defining statements
	var fix func(list []ast.Stmt) []ast.Stmt
	fix = func(list []ast.Stmt) []ast.Stmt {
		var out []ast.Stmt
		for _, s := range list {
			if r, ok := repl[s]; ok {
				out = append(out, r...)
				continue
			}
			out = append(out, s)
		}
		return out
	}
	ast.Inspect(fd.Body, func(x ast.Node) bool {
		switch b := x.(type) {
		case *ast.BlockStmt:
			b.List = fix(b.List)
		case *ast.CaseClause:
			b.Body = fix(b.Body)
		case *ast.CommClause:
			b.Body = fix(b.Body)
		}
		return true
	})
	n.in.dirty[n.file] = true
	for v := range names {
		n.in.res.Normalized = append(n.in.res.Normalized, fmt.Sprintf("local %s of the new struct type %s in %s replaced by one variable per field", v.Name(), cands[v].named.Obj().Name(), fd.Name.Name))
	}
}
