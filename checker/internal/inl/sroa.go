package inl

import (
	"fmt"
	"sort"
	"go/ast"
	"go/token"
	"go/types"

	"golang.org/x/tools/go/ast/astutil"
	"golang.org/x/tools/go/packages"
)

// BaselineType reports whether the named type existed in the pinned tree
// (possibly under another name). Set by the driver.
var BaselineType = func(pkgPath, name string) bool { return true }

// normalizeLocalStructs replaces a local value of a struct type that is new
// relative to the pinned tree by one local variable per field, when the
// function uses the value only by selecting its fields:
//
//	q := &blockQuery{hash: h}          var q_hash = h; var q_found *btcutil.Block
//	.. q.hash .. q.found = b ..   =>   .. q_hash .. q_found = b ..
//
// (function literals that used q now capture the variables). This is what a
// "state of the callback in a small struct" refactoring looks like once the
// methods of that struct have been inlined back into the literals that stood
// in their place; in the pinned tree the callback's state WAS such captured
// locals. Nothing else about the struct is observable when every use is a
// field selection.
func (in *inliner) normalizeLocalStructs(pkgs []*packages.Package, excluded func(string) bool) {
	for _, pk := range pkgs {
		for _, f := range pk.Syntax {
			if excluded(in.fset.Position(f.Pos()).Filename) {
				continue
			}
			n := &normCtx{in: in, pkg: pk, file: f}
			for _, d := range f.Decls {
				if fd, ok := d.(*ast.FuncDecl); ok && fd.Body != nil {
					n.sroa(fd)
				}
			}
		}
	}
}

// tuplePos: position i of a tuple assignment / definition whose left side is
// a candidate and whose right side is another candidate (src) or a keyed
// composite literal (lit).
type tuplePos struct {
	i   int
	lhs *types.Var
	src *types.Var
	lit *ast.CompositeLit
}

type sroaCand struct {
	v      *types.Var
	st     *types.Struct
	named  *types.Named
	def    ast.Stmt
	lit    *ast.CompositeLit // may be nil (new(T), var v T)
	prefix string
	ok     bool
	// `d := c`: the value starts as a copy of another candidate
	copyFrom *types.Var
	// the copy is one position of a tuple definition (`a, err := r0, r1`)
	tuple *ast.AssignStmt
	decls []ast.Stmt
}

func (n *normCtx) sroa(fd *ast.FuncDecl) {
	pk := n.pkg
	newStruct := func(t types.Type) (*types.Named, *types.Struct) {
		if p, ok := t.(*types.Pointer); ok {
			t = p.Elem()
		}
		named, ok := t.(*types.Named)
		if !ok || named.Obj().Pkg() != pk.Types || named.TypeArgs().Len() > 0 || named.Obj().Exported() {
			return nil, nil
		}
		st, ok := named.Underlying().(*types.Struct)
		if !ok || BaselineType(pk.PkgPath, named.Obj().Name()) {
			return nil, nil
		}
		for i := 0; i < st.NumFields(); i++ {
			if st.Field(i).Embedded() {
				return nil, nil
			}
		}
		return named, st
	}
	cands := map[*types.Var]*sroaCand{}
	// uses of a candidate other than field selections that are rewritten too:
	// the source of a copy, the target of `c = T{k: v, ..}`
	allowed := map[*ast.Ident]bool{}
	whole := map[*ast.AssignStmt]*types.Var{}
	tuples := map[*ast.AssignStmt][]tuplePos{}
	blanks := map[*ast.AssignStmt]*types.Var{}
	ast.Inspect(fd.Body, func(x ast.Node) bool {
		switch s := x.(type) {
		case *ast.AssignStmt:
			if len(s.Lhs) == len(s.Rhs) && len(s.Lhs) > 1 && (s.Tok == token.ASSIGN || s.Tok == token.DEFINE) {
				// tuple forms: `r0, r1 = v, err` / `r0, r1 = T{..}, nil` /
				// `v, err := r0, r1` with operands that have no effect
				pure := true
				for _, r := range s.Rhs {
					switch x := r.(type) {
					case *ast.Ident, *ast.BasicLit:
					case *ast.CompositeLit:
						for _, e := range x.Elts {
							kv, isKV := e.(*ast.KeyValueExpr)
							if !isKV {
								pure = false
							} else if _, isId := kv.Key.(*ast.Ident); !isId {
								pure = false
							}
						}
					default:
						if s.Tok == token.DEFINE {
							pure = false
						}
					}
				}
				if !pure {
					return true
				}
				var tp []tuplePos
				for i := range s.Lhs {
					lid, ok := s.Lhs[i].(*ast.Ident)
					if !ok || lid.Name == "_" {
						continue
					}
					var lv *types.Var
					if s.Tok == token.DEFINE {
						lv, _ = pk.TypesInfo.Defs[lid].(*types.Var)
					} else {
						lv, _ = pk.TypesInfo.Uses[lid].(*types.Var)
					}
					if lv == nil {
						continue
					}
					if _, isPtr := lv.Type().(*types.Pointer); isPtr {
						continue
					}
					named, st := newStruct(lv.Type())
					if named == nil {
						continue
					}
					switch r := s.Rhs[i].(type) {
					case *ast.Ident:
						src, _ := pk.TypesInfo.Uses[r].(*types.Var)
						if src == nil || !types.Identical(src.Type(), lv.Type()) {
							continue
						}
						if s.Tok == token.DEFINE {
							cands[lv] = &sroaCand{v: lv, st: st, named: named, ok: true, copyFrom: src, tuple: s}
						} else {
							allowed[lid] = true
						}
						allowed[r] = true
						tp = append(tp, tuplePos{i: i, lhs: lv, src: src})
					case *ast.CompositeLit:
						if s.Tok == token.DEFINE || !types.Identical(pk.TypesInfo.TypeOf(r), lv.Type()) {
							continue
						}
						allowed[lid] = true
						tp = append(tp, tuplePos{i: i, lhs: lv, lit: r})
					}
				}
				if len(tp) > 0 {
					tuples[s] = tp
				}
				return true
			}
			if s.Tok == token.ASSIGN && len(s.Lhs) == 1 && len(s.Rhs) == 1 {
				// `_ = v` (written behind every temporary): no use
				if l, ok := s.Lhs[0].(*ast.Ident); ok && l.Name == "_" {
					if r, ok := s.Rhs[0].(*ast.Ident); ok {
						if rv, _ := pk.TypesInfo.Uses[r].(*types.Var); rv != nil {
							if named, _ := newStruct(rv.Type()); named != nil {
								allowed[r] = true
								blanks[s] = rv
							}
						}
					}
					return true
				}
				id, ok := s.Lhs[0].(*ast.Ident)
				lit, isLit := s.Rhs[0].(*ast.CompositeLit)
				if ok && isLit {
					v, _ := pk.TypesInfo.Uses[id].(*types.Var)
					keyed := true
					for _, e := range lit.Elts {
						kv, isKV := e.(*ast.KeyValueExpr)
						if !isKV {
							keyed = false
						} else if _, isId := kv.Key.(*ast.Ident); !isId {
							keyed = false
						}
					}
					if v != nil && keyed {
						if _, isPtr := v.Type().(*types.Pointer); !isPtr && types.Identical(pk.TypesInfo.TypeOf(lit), v.Type()) {
							if named, _ := newStruct(v.Type()); named != nil {
								whole[s] = v
								allowed[id] = true
							}
						}
					}
				}
				return true
			}
			if s.Tok != token.DEFINE || len(s.Lhs) != 1 || len(s.Rhs) != 1 {
				return true
			}
			id, ok := s.Lhs[0].(*ast.Ident)
			if !ok || id.Name == "_" {
				return true
			}
			v, _ := pk.TypesInfo.Defs[id].(*types.Var)
			if v == nil {
				return true
			}
			named, st := newStruct(v.Type())
			if named == nil {
				return true
			}
			rhs := s.Rhs[0]
			if u, ok := rhs.(*ast.UnaryExpr); ok && u.Op == token.AND {
				rhs = u.X
			}
			c := &sroaCand{v: v, st: st, named: named, def: s, ok: true}
			switch r := rhs.(type) {
			case *ast.Ident:
				// a copy of another local of the same new struct type
				src, _ := pk.TypesInfo.Uses[r].(*types.Var)
				_, isPtr := v.Type().(*types.Pointer)
				if src == nil || isPtr || rhs != s.Rhs[0] || !types.Identical(src.Type(), v.Type()) {
					return true
				}
				c.copyFrom = src
				allowed[r] = true
			case *ast.CompositeLit:
				for _, e := range r.Elts {
					kv, isKV := e.(*ast.KeyValueExpr)
					if !isKV {
						return true
					}
					if _, isId := kv.Key.(*ast.Ident); !isId {
						return true
					}
				}
				c.lit = r
			case *ast.CallExpr:
				if fid, ok := r.Fun.(*ast.Ident); !ok || fid.Name != "new" || len(r.Args) != 1 {
					return true
				} else if _, isB := pk.TypesInfo.Uses[fid].(*types.Builtin); !isB {
					return true
				}
			default:
				return true
			}
			cands[v] = c
		case *ast.DeclStmt:
			gd, ok := s.Decl.(*ast.GenDecl)
			if !ok || gd.Tok != token.VAR || len(gd.Specs) != 1 {
				return true
			}
			vs := gd.Specs[0].(*ast.ValueSpec)
			if len(vs.Names) != 1 || len(vs.Values) > 1 || vs.Names[0].Name == "_" {
				return true
			}
			// `var v T = T{k: e, ..}` (an argument of a written-out helper)
			var declLit *ast.CompositeLit
			if len(vs.Values) == 1 {
				lit, isLit := vs.Values[0].(*ast.CompositeLit)
				if !isLit {
					return true
				}
				for _, e := range lit.Elts {
					kv, isKV := e.(*ast.KeyValueExpr)
					if !isKV {
						return true
					}
					if _, isId := kv.Key.(*ast.Ident); !isId {
						return true
					}
				}
				declLit = lit
			}
			v, _ := pk.TypesInfo.Defs[vs.Names[0]].(*types.Var)
			if v == nil {
				return true
			}
			if _, isPtr := v.Type().(*types.Pointer); isPtr {
				return true
			}
			named, st := newStruct(v.Type())
			if named == nil {
				return true
			}
			if declLit != nil && !types.Identical(pk.TypesInfo.TypeOf(declLit), v.Type()) {
				return true
			}
			cands[v] = &sroaCand{v: v, st: st, named: named, def: s, ok: true, lit: declLit}
		}
		return true
	})
	if len(cands) == 0 {
		return
	}
	// every use selects a field
	selX := map[*ast.Ident]*ast.SelectorExpr{}
	ast.Inspect(fd.Body, func(x ast.Node) bool {
		if se, ok := x.(*ast.SelectorExpr); ok {
			if id, ok := se.X.(*ast.Ident); ok {
				selX[id] = se
			}
		}
		return true
	})
	ast.Inspect(fd.Body, func(x ast.Node) bool {
		id, ok := x.(*ast.Ident)
		if !ok {
			return true
		}
		v, _ := pk.TypesInfo.Uses[id].(*types.Var)
		c := cands[v]
		if c == nil || allowed[id] {
			return true
		}
		se := selX[id]
		if se == nil {
			c.ok = false
			return true
		}
		sel := pk.TypesInfo.Selections[se]
		if sel == nil || sel.Kind() != types.FieldVal || len(sel.Index()) != 1 {
			c.ok = false
		}
		return true
	})
	// a copy stands and falls with its source, a whole assignment with its target
	for changed := true; changed; {
		changed = false
		for _, c := range cands {
			if c.copyFrom == nil {
				continue
			}
			src := cands[c.copyFrom]
			if c.ok && (src == nil || !src.ok) {
				c.ok, changed = false, true
			}
			if !c.ok && src != nil && src.ok {
				src.ok, changed = false, true
			}
		}
	}
	// a tuple statement is rewritten as a whole or not at all
	for changed := true; changed; {
		changed = false
		for _, tp := range tuples {
			allOK := true
			for _, p := range tp {
				if c := cands[p.lhs]; c == nil || !c.ok {
					allOK = false
				}
				if p.src != nil {
					if c := cands[p.src]; c == nil || !c.ok {
						allOK = false
					}
				}
			}
			if allOK {
				continue
			}
			for _, p := range tp {
				if c := cands[p.lhs]; c != nil && c.ok {
					c.ok, changed = false, true
				}
				if p.src != nil {
					if c := cands[p.src]; c != nil && c.ok {
						c.ok, changed = false, true
					}
				}
			}
		}
		for _, c := range cands {
			if c.copyFrom == nil {
				continue
			}
			src := cands[c.copyFrom]
			if c.ok && (src == nil || !src.ok) {
				c.ok, changed = false, true
			}
			if !c.ok && src != nil && src.ok {
				src.ok, changed = false, true
			}
		}
	}
	q := &qualifier{pk: pk, file: n.file}
	typeExpr := func(t types.Type) ast.Expr {
		e, ok := parseTypeExpr(types.TypeString(t, q.qual))
		if !ok || q.failed {
			return nil
		}
		// a parameter or local of the function may hide a name the type is
		// written with (`appendMode appendMode`): the type then gets a
		// file-level alias
		shadowed := false
		if scope := pk.Types.Scope().Innermost(fd.Body.Lbrace + 1); scope != nil {
			var visit func(x ast.Node) bool
			visit = func(x ast.Node) bool {
				switch x := x.(type) {
				case *ast.Field:
					if x.Type != nil {
						ast.Inspect(x.Type, visit)
					}
					return false
				case *ast.SelectorExpr:
					return false
				case *ast.Ident:
					hidden := false
					ast.Inspect(fd, func(y ast.Node) bool {
						if id, ok := y.(*ast.Ident); ok && id.Name == x.Name {
							if obj := pk.TypesInfo.Defs[id]; obj != nil {
								if _, isType := obj.(*types.TypeName); !isType {
									hidden = true
								}
							}
						}
						return !hidden
					})
					if hidden {
						shadowed = true
					}
				}
				return true
			}
			ast.Inspect(e, visit)
		}
		if shadowed {
			if _, isTP := t.(*types.TypeParam); isTP {
				return nil
			}
			n.in.nfresh++
			alias := fmt.Sprintf("inlT%d_", n.in.nfresh)
			n.file.Decls = append(n.file.Decls, &ast.GenDecl{Tok: token.TYPE, Specs: []ast.Spec{&ast.TypeSpec{Name: ast.NewIdent(alias), Assign: 1, Type: e}}})
			return ast.NewIdent(alias)
		}
		return e
	}
	repl := map[ast.Stmt][]ast.Stmt{}
	names := map[*types.Var]map[string]string{} // var -> field -> local name
	var ordered []*sroaCand
	for _, c := range cands {
		if c.copyFrom == nil {
			ordered = append(ordered, c)
		}
	}
	for round := 0; round < 4; round++ {
		for _, c := range cands {
			if c.copyFrom == nil {
				continue
			}
			have, srcIn := false, false
			for _, o := range ordered {
				have = have || o == c
				srcIn = srcIn || o.v == c.copyFrom
			}
			if !have && srcIn {
				ordered = append(ordered, c)
			}
		}
	}
	sort.SliceStable(ordered, func(i, j int) bool {
		if (ordered[i].copyFrom == nil) != (ordered[j].copyFrom == nil) {
			return ordered[i].copyFrom == nil
		}
		return candPos(ordered[i]) < candPos(ordered[j])
	})
	for _, c := range ordered {
		if !c.ok {
			continue
		}
		if c.copyFrom != nil && names[c.copyFrom] == nil {
			c.ok = false
			continue
		}
		n.in.nfresh++
		c.prefix = fmt.Sprintf("inlS%d_%s_", n.in.nfresh, c.v.Name())
		pos := candPos(c)
		inits := map[string]ast.Expr{}
		var order []string
		if c.lit != nil {
			for _, e := range c.lit.Elts {
				kv := e.(*ast.KeyValueExpr)
				name := kv.Key.(*ast.Ident).Name
				inits[name] = kv.Value
				order = append(order, name)
			}
		}
		for i := 0; i < c.st.NumFields(); i++ {
			if _, has := inits[c.st.Field(i).Name()]; !has {
				order = append(order, c.st.Field(i).Name())
			}
		}
		var out []ast.Stmt
		fieldNames := map[string]string{}
		bad := false
		for _, fname := range order {
			var ft types.Type
			for i := 0; i < c.st.NumFields(); i++ {
				if c.st.Field(i).Name() == fname {
					ft = c.st.Field(i).Type()
				}
			}
			te := typeExpr(ft)
			if ft == nil || te == nil {
				bad = true
				break
			}
			local := c.prefix + fname
			fieldNames[fname] = local
			spec := &ast.ValueSpec{Names: []*ast.Ident{{NamePos: pos, Name: local}}, Type: te}
			if init, has := inits[fname]; has {
				spec.Values = []ast.Expr{init}
			}
			if c.copyFrom != nil {
				spec.Values = []ast.Expr{&ast.Ident{NamePos: pos, Name: names[c.copyFrom][fname]}}
			}
			out = append(out, &ast.DeclStmt{Decl: &ast.GenDecl{TokPos: pos, Tok: token.VAR, Specs: []ast.Spec{spec}}})
			out = append(out, &ast.AssignStmt{Lhs: []ast.Expr{&ast.Ident{NamePos: pos, Name: "_"}}, TokPos: pos, Tok: token.ASSIGN, Rhs: []ast.Expr{&ast.Ident{NamePos: pos, Name: local}}})
		}
		if bad {
			c.ok = false
			continue
		}
		if c.tuple != nil {
			c.decls = out
		} else {
			repl[c.def] = out
		}
		names[c.v] = fieldNames
	}
	for as, v := range whole {
		fn := names[v]
		c := cands[v]
		if fn == nil || c == nil || !c.ok {
			continue
		}
		lit := as.Rhs[0].(*ast.CompositeLit)
		pos := as.Pos()
		given := map[string]bool{}
		var lhs, rhs []ast.Expr
		for _, e := range lit.Elts {
			kv := e.(*ast.KeyValueExpr)
			name := kv.Key.(*ast.Ident).Name
			given[name] = true
			lhs = append(lhs, &ast.Ident{NamePos: pos, Name: fn[name]})
			rhs = append(rhs, kv.Value)
		}
		bad := false
		for i := 0; i < c.st.NumFields(); i++ {
			f := c.st.Field(i)
			if given[f.Name()] {
				continue
			}
			te := typeExpr(f.Type())
			if te == nil {
				bad = true
				break
			}
			lhs = append(lhs, &ast.Ident{NamePos: pos, Name: fn[f.Name()]})
			switch f.Type().Underlying().(type) {
			case *types.Pointer, *types.Interface, *types.Slice, *types.Map, *types.Chan, *types.Signature:
				// (the tuple assignment converts nil to the field's type)
				rhs = append(rhs, &ast.Ident{NamePos: pos, Name: "nil"})
			default:
				rhs = append(rhs, &ast.StarExpr{Star: pos, X: &ast.CallExpr{Fun: &ast.Ident{NamePos: pos, Name: "new"}, Lparen: pos, Args: []ast.Expr{te}, Rparen: pos}})
			}
		}
		if bad || len(lhs) == 0 {
			// (cannot happen for a candidate whose declaration could be written)
			continue
		}
		repl[as] = []ast.Stmt{&ast.AssignStmt{Lhs: lhs, TokPos: pos, Tok: token.ASSIGN, Rhs: rhs}}
	}
	for as, v := range blanks {
		if c := cands[v]; c != nil && c.ok && names[v] != nil {
			repl[as] = []ast.Stmt{}
		}
	}
	for as, tp := range tuples {
		usable := true
		for _, p := range tp {
			if c := cands[p.lhs]; c == nil || !c.ok || names[p.lhs] == nil {
				usable = false
			}
			if p.src != nil {
				if c := cands[p.src]; c == nil || !c.ok || names[p.src] == nil {
					usable = false
				}
			}
		}
		if !usable {
			continue
		}
		pos := as.Pos()
		at := map[int]tuplePos{}
		for _, p := range tp {
			at[p.i] = p
		}
		var out []ast.Stmt
		var lhs, rhs []ast.Expr
		anyNew := false
		bad := false
		for i := range as.Lhs {
			p, isCand := at[i]
			if !isCand {
				lhs = append(lhs, as.Lhs[i])
				rhs = append(rhs, as.Rhs[i])
				if id, ok := as.Lhs[i].(*ast.Ident); ok && as.Tok == token.DEFINE && (id.Name == "_" || pk.TypesInfo.Defs[id] != nil) {
					if id.Name != "_" {
						anyNew = true
					}
				}
				continue
			}
			c := cands[p.lhs]
			if as.Tok == token.DEFINE {
				// the copy's variables are declared (with the source's
				// fields as initial values) in front of what is left
				out = append(out, c.decls...)
				continue
			}
			fn := names[p.lhs]
			given := map[string]ast.Expr{}
			if p.lit != nil {
				for _, e := range p.lit.Elts {
					kv := e.(*ast.KeyValueExpr)
					given[kv.Key.(*ast.Ident).Name] = kv.Value
				}
			}
			for k := 0; k < c.st.NumFields(); k++ {
				f := c.st.Field(k)
				lhs = append(lhs, &ast.Ident{NamePos: pos, Name: fn[f.Name()]})
				switch {
				case p.src != nil:
					rhs = append(rhs, &ast.Ident{NamePos: pos, Name: names[p.src][f.Name()]})
				case given[f.Name()] != nil:
					rhs = append(rhs, given[f.Name()])
				default:
					switch f.Type().Underlying().(type) {
					case *types.Pointer, *types.Interface, *types.Slice, *types.Map, *types.Chan, *types.Signature:
						rhs = append(rhs, &ast.Ident{NamePos: pos, Name: "nil"})
					default:
						te := typeExpr(f.Type())
						if te == nil {
							bad = true
						}
						rhs = append(rhs, &ast.StarExpr{Star: pos, X: &ast.CallExpr{Fun: &ast.Ident{NamePos: pos, Name: "new"}, Lparen: pos, Args: []ast.Expr{te}, Rparen: pos}})
					}
				}
			}
		}
		if bad {
			continue
		}
		if len(lhs) > 0 {
			tok := as.Tok
			if tok == token.DEFINE && !anyNew {
				tok = token.ASSIGN
			}
			out = append(out, &ast.AssignStmt{Lhs: lhs, TokPos: pos, Tok: tok, Rhs: rhs})
		}
		repl[as] = out
	}
	if len(repl) == 0 {
		return
	}
	selRepl := func(cur *astutil.Cursor) bool {
		switch x := cur.Node().(type) {
		case *ast.SelectorExpr:
			id, ok := x.X.(*ast.Ident)
			if !ok {
				return true
			}
			v, _ := pk.TypesInfo.Uses[id].(*types.Var)
			if fn := names[v]; fn != nil {
				if local, ok := fn[x.Sel.Name]; ok {
					cur.Replace(&ast.Ident{NamePos: x.Pos(), Name: local})
					return false
				}
			}
		}
		return true
	}
	astutil.Apply(fd.Body, selRepl, nil)
	// (the initial values moved into the new declarations are operands of
	// those now)
	for _, list := range repl {
		for _, st := range list {
			astutil.Apply(st, selRepl, nil)
		}
	}
	// the defining statements
	var fix func(list []ast.Stmt) []ast.Stmt
	fix = func(list []ast.Stmt) []ast.Stmt {
		var out []ast.Stmt
		for _, s := range list {
			if r, ok := repl[s]; ok {
				out = append(out, r...)
				continue
			}
			out = append(out, s)
		}
		return out
	}
	ast.Inspect(fd.Body, func(x ast.Node) bool {
		switch b := x.(type) {
		case *ast.BlockStmt:
			b.List = fix(b.List)
		case *ast.CaseClause:
			b.Body = fix(b.Body)
		case *ast.CommClause:
			b.Body = fix(b.Body)
		}
		return true
	})
	n.in.dirty[n.file] = true
	for v := range names {
		n.in.res.Normalized = append(n.in.res.Normalized, fmt.Sprintf("local %s of the new struct type %s in %s replaced by one variable per field", v.Name(), cands[v].named.Obj().Name(), fd.Name.Name))
	}
}

func candPos(c *sroaCand) token.Pos {
	if c.def != nil {
		return c.def.Pos()
	}
	return c.tuple.Pos()
}
