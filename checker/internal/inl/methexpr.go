package inl

import (
	"fmt"
	"go/ast"
	"go/types"

	"golang.org/x/tools/go/ast/astutil"
	"golang.org/x/tools/go/packages"
)

// normalizeMethodExprCalls spells a direct call of a method expression,
// `(*T).m(x, a..)` or `T.m(x, a..)`, as the method call it means, `x.m(a..)`,
// when x already has the receiver's type (so that no address is taken and no
// copy is made that the method call would not make as well). Such calls are
// what is left when a strategy parameter (`op func(*T) error`, handed
// `(*T).remove`) of a new helper has been replaced by its argument.
func (in *inliner) normalizeMethodExprCalls(pkgs []*packages.Package, excluded func(string) bool) {
	for _, pk := range pkgs {
		for _, f := range pk.Syntax {
			if excluded(in.fset.Position(f.Pos()).Filename) {
				continue
			}
			file := f
			astutil.Apply(f, func(c *astutil.Cursor) bool {
				call, ok := c.Node().(*ast.CallExpr)
				if !ok || len(call.Args) == 0 {
					return true
				}
				fun := call.Fun
				for {
					p, isP := fun.(*ast.ParenExpr)
					if !isP {
						break
					}
					fun = p.X
				}
				sel, ok := fun.(*ast.SelectorExpr)
				if !ok {
					return true
				}
				s := pk.TypesInfo.Selections[sel]
				if s == nil || s.Kind() != types.MethodExpr || len(s.Index()) != 1 {
					return true
				}
				m, _ := s.Obj().(*types.Func)
				if m == nil || m.Pkg() != pk.Types {
					return true
				}
				sig, _ := m.Type().(*types.Signature)
				if sig == nil || sig.Recv() == nil {
					return true
				}
				at := pk.TypesInfo.TypeOf(call.Args[0])
				if at == nil || !types.Identical(at, sig.Recv().Type()) {
					return true
				}
				var recv ast.Expr = call.Args[0]
				switch recv.(type) {
				case *ast.Ident, *ast.SelectorExpr, *ast.CallExpr, *ast.IndexExpr, *ast.ParenExpr:
				default:
					recv = &ast.ParenExpr{X: recv}
				}
				// (the method's identifier is kept: it carries the use of m; the
				// new selector gets the selection a method call would have)
				nsel := &ast.SelectorExpr{X: recv, Sel: sel.Sel}
				if ms := types.NewMethodSet(at).Lookup(pk.Types, m.Name()); ms != nil {
					pk.TypesInfo.Selections[nsel] = ms
				}
				call.Fun = nsel
				call.Args = call.Args[1:]
				in.dirty[file] = true
				in.res.Normalized = append(in.res.Normalized, fmt.Sprintf("call of the method expression %s at %s spelled as a method call", m.Name(), in.fset.Position(call.Pos())))
				return true
			}, nil)
		}
	}
}

// methodExprArg: e is a method expression (`(*T).m`, `T.m`) of a type of this
// package; returns its spelling.
func (in *inliner) methodExprArg(pk *packages.Package, e ast.Expr) (string, bool) {
	x := e
	for {
		p, isP := x.(*ast.ParenExpr)
		if !isP {
			break
		}
		x = p.X
	}
	sel, ok := x.(*ast.SelectorExpr)
	if !ok {
		return "", false
	}
	s := pk.TypesInfo.Selections[sel]
	if s == nil || s.Kind() != types.MethodExpr {
		return "", false
	}
	m, _ := s.Obj().(*types.Func)
	if m == nil || m.Pkg() != pk.Types {
		return "", false
	}
	// the operand: T or (*T), T a type name of this package
	t := sel.X
	for {
		p, isP := t.(*ast.ParenExpr)
		if !isP {
			break
		}
		t = p.X
	}
	ptr := false
	if st, isStar := t.(*ast.StarExpr); isStar {
		t, ptr = st.X, true
	}
	id, ok := t.(*ast.Ident)
	if !ok {
		return "", false
	}
	if _, isTN := pk.TypesInfo.Uses[id].(*types.TypeName); !isTN {
		return "", false
	}
	if ptr {
		return "(*" + id.Name + ")." + sel.Sel.Name, true
	}
	return id.Name + "." + sel.Sel.Name, true
}
