// Package inl is a conservative source-level inliner used to make the rule
// engines insensitive to "extract helper" refactorings.
//
// The rules of this checker are anchored on the functions of the pinned tree
// (baseline_funcs.txt). A function that is NOT in that baseline is new: no
// rule can name it, and the statements it contains were, in the tree the rules
// were written against, part of its callers. Transform therefore inlines the
// statically resolved, same-package calls of such new functions back into
// their callers, at source level, and hands the rewritten files to
// go/packages as an overlay. Nothing is inlined on the pinned tree itself.
//
// Only shapes that can be rewritten without changing behaviour are handled:
// the call must be the whole right-hand side of an assignment / definition,
// an expression statement, the whole operand of a return, or the whole (or
// negated) condition of an if; the callee must be non-generic, non-variadic,
// not recursive, and free of recover and goto (labels are renamed per copy); a defer is
// accepted when it is an unconditional, argument-less call at the top level of
// the body (`defer mu.Unlock()`): the call is then made explicitly on every way
// out behind it.
// Everything else is left alone (and listed), in which case the rules see
// the call as they would have before.
package inl

import (
	"bytes"
	_ "embed"
	"fmt"
	"go/ast"
	"go/parser"
	"go/printer"
	"go/token"
	"go/types"
	"os"
	"reflect"
	"regexp"
	"sort"
	"strconv"
	"strings"

	"golang.org/x/tools/go/packages"
)

//go:embed baseline_funcs.txt
var baselineText string

var baseline = func() map[string]bool {
	m := map[string]bool{}
	for _, l := range strings.Split(baselineText, "\n") {
		l = strings.TrimSpace(l)
		if l != "" && !strings.HasPrefix(l, "#") {
			m[l] = true
		}
	}
	return m
}()

// Renamed holds the keys (FuncName format) of functions of the current tree
// that are renamed baseline functions (set by the driver from base.Resolve):
// they are not new.
var Renamed = map[string]bool{}

// TreatAllAsNew makes every function a candidate (self-test of the inliner).
var TreatAllAsNew bool

// InBaseline reports whether the named function existed in the pinned tree
// (possibly under another name).
func InBaseline(name string) bool {
	if TreatAllAsNew {
		return false
	}
	return baseline[name] || Renamed[name]
}

// FuncName is the baseline key of a declared function: "pkgpath.Name" or
// "pkgpath.(*T).Name" / "pkgpath.(T).Name".
func FuncName(pkgPath string, d *ast.FuncDecl) string {
	if d.Recv == nil || len(d.Recv.List) == 0 {
		return pkgPath + "." + d.Name.Name
	}
	t := d.Recv.List[0].Type
	ptr := false
	if s, ok := t.(*ast.StarExpr); ok {
		ptr = true
		t = s.X
	}
	name := "?"
	switch x := t.(type) {
	case *ast.Ident:
		name = x.Name
	case *ast.IndexExpr:
		if id, ok := x.X.(*ast.Ident); ok {
			name = id.Name + "[]"
		}
	case *ast.IndexListExpr:
		if id, ok := x.X.(*ast.Ident); ok {
			name = id.Name + "[]"
		}
	}
	if ptr {
		return pkgPath + ".(*" + name + ")." + d.Name.Name
	}
	return pkgPath + ".(" + name + ")." + d.Name.Name
}

// Result of a transformation.
type Result struct {
	Overlay map[string][]byte
	Inlined []string // "callee into caller at file:line"
	Kept    []string // new functions whose calls could not all be inlined, with the reason
	New     []string // functions not in the baseline
	Undone  []string // function<->method conversions undone
	// newer spellings rewritten into the pinned tree's (wg.Go)
	Normalized []string
}

type callee struct {
	decl   *ast.FuncDecl
	obj    *types.Func
	file   *ast.File
	pkg    *packages.Package
	reason string // non-empty: not inlinable
	sites  int    // calls inlined
	// local closures (v := func(..) {..}, only ever called): the literal, the
	// defining statement and the number of calls
	lit  *ast.FuncLit
	def  *ast.AssignStmt
	uses int
}

type inliner struct {
	fset    *token.FileSet
	res     *Result
	callees map[*types.Func]*callee
	n       int
	dirty   map[*ast.File]bool
	state   map[*types.Func]int // 0 unvisited, 1 in progress, 2 done
	origOf  map[*ast.Ident]*ast.Ident
	// package-name identifiers inside generated type expressions -> import path
	pkgIdent map[*ast.Ident]string
	// local closure variables that are new relative to the pinned tree
	closures map[*types.Var]*callee
	nfresh   int
	// closure definitions written by a normalisation of this round
	synthDefs map[*ast.AssignStmt]bool
}

// Transform inlines calls of non-baseline functions in the given (module)
// packages. It never fails: anything unexpected leaves the code as it is.
func Transform(pkgs []*packages.Package, excluded func(filename string) bool) *Result {
	in := &inliner{n: seqBase, nfresh: seqBase, res: &Result{Overlay: map[string][]byte{}}, callees: map[*types.Func]*callee{}, dirty: map[*ast.File]bool{}, state: map[*types.Func]int{}, origOf: map[*ast.Ident]*ast.Ident{}, pkgIdent: map[*ast.Ident]string{}, closures: map[*types.Var]*callee{}, synthDefs: map[*ast.AssignStmt]bool{}}
	if len(pkgs) == 0 {
		return in.res
	}
	in.fset = pkgs[0].Fset
	in.deconvert(pkgs, excluded)
	in.normalizeWaitGroupGo(pkgs, excluded)
	in.normalizeErrorsIs(pkgs, excluded)
	in.normalizeMethodExprCalls(pkgs, excluded)
	in.normalizeMethodValues(pkgs, excluded)
	in.normalizeRangeInt(pkgs, excluded)
	in.normalizeLibraryLoops(pkgs, excluded)
	in.normalizeLiteralRange(pkgs, excluded)
	in.normalizePointerStructs(pkgs, excluded)
	in.normalizeLocalStructs(pkgs, excluded)
	in.findClosures(pkgs, excluded)
	for _, pk := range pkgs {
		for _, f := range pk.Syntax {
			fname := in.fset.Position(f.Pos()).Filename
			if excluded(fname) {
				continue
			}
			for _, d := range f.Decls {
				fd, ok := d.(*ast.FuncDecl)
				if !ok || fd.Body == nil {
					continue
				}
				name := FuncName(pk.PkgPath, fd)
				if InBaseline(name) {
					continue
				}
				obj, _ := pk.TypesInfo.Defs[fd.Name].(*types.Func)
				if obj == nil {
					continue
				}
				in.res.New = append(in.res.New, name)
				c := &callee{decl: fd, obj: obj, file: f, pkg: pk}
				c.reason = eligibility(fd, obj)
				in.callees[obj] = c
			}
		}
	}
	sort.Strings(in.res.New)
	if len(in.callees) > 0 {
		in.normalizeCallShapes(pkgs, excluded)
	}
	if len(in.callees) == 0 && len(in.dirty) == 0 && len(in.closures) == 0 {
		return in.res
	}
	// rewrite every function body of the packages that have new functions;
	// new functions first (so that nested helpers are already expanded when
	// they are copied into their callers)
	for _, c := range in.callees {
		in.expandCallee(c)
	}
	for _, pk := range pkgs {
		hasNew := len(in.callees) > 0 // a new helper may live in another package
		for _, c := range in.callees {
			if c.pkg == pk {
				hasNew = true
			}
		}
		for _, c := range in.closures {
			if c.pkg == pk {
				hasNew = true
			}
		}
		if !hasNew {
			continue
		}
		for _, f := range pk.Syntax {
			fname := in.fset.Position(f.Pos()).Filename
			if excluded(fname) {
				continue
			}
			for _, d := range f.Decls {
				fd, ok := d.(*ast.FuncDecl)
				if !ok || fd.Body == nil {
					continue
				}
				if obj, _ := pk.TypesInfo.Defs[fd.Name].(*types.Func); obj != nil && in.callees[obj] != nil {
					continue // already expanded
				}
				in.rewriteBody(pk, f, fd.Body, fd)
			}
		}
	}
	// new functions all of whose uses were inlined are dropped from the
	// rewritten source: they no longer run, and left in place they would look
	// like unreachable code touching the state the rules watch
	used := map[types.Object]bool{}
	for _, pk := range pkgs {
		for _, f := range pk.Syntax {
			ast.Inspect(f, func(n ast.Node) bool {
				id, ok := n.(*ast.Ident)
				if !ok {
					return true
				}
				o := id
				for in.origOf[o] != nil {
					o = in.origOf[o]
				}
				if obj := pk.TypesInfo.Uses[o]; obj != nil {
					if f, ok := obj.(*types.Func); ok {
						obj = f.Origin()
					}
					used[obj] = true
				}
				return true
			})
		}
	}
	for _, c := range in.callees {
		// only functions that were called, whose every call was inlined, and
		// that nothing outside the module can call
		if c.reason != "" || used[c.obj] || c.sites == 0 || c.obj.Exported() || os.Getenv("NVET_KEEPDEAD") != "" {
			continue
		}
		for i, d := range c.file.Decls {
			if d == ast.Decl(c.decl) {
				c.file.Decls = append(c.file.Decls[:i:i], c.file.Decls[i+1:]...)
				in.dirty[c.file] = true
				break
			}
		}
	}
	for f := range in.dirty {
		if hasDirective(f) {
			continue
		}
		f.Comments = nil
		stripDocs(f)
		pruneImports(f, pkgOfFile(pkgs, f))
		var buf bytes.Buffer
		mode := printer.SourcePos | printer.TabIndent | printer.UseSpaces
		if os.Getenv("NVET_NOLINE") != "" {
			mode = printer.TabIndent | printer.UseSpaces
		}
		cfg := printer.Config{Mode: mode, Tabwidth: 8}
		if err := cfg.Fprint(&buf, in.fset, f); err != nil {
			continue
		}
		in.res.Overlay[in.fset.Position(f.Pos()).Filename] = buf.Bytes()
	}
	for _, c := range in.callees {
		if c.reason != "" {
			in.res.Kept = append(in.res.Kept, FuncName(c.pkg.PkgPath, c.decl)+": "+c.reason)
		}
	}
	for _, c := range in.closures {
		if c.reason != "" {
			in.res.Kept = append(in.res.Kept, FuncName(c.pkg.PkgPath, c.decl)+": "+c.reason)
		}
	}
	sort.Strings(in.res.Inlined)
	sort.Strings(in.res.Kept)
	// names made by later calls (the cache module, later rounds) must not
	// repeat the ones made here
	if in.n > seqBase {
		seqBase = in.n
	}
	if in.nfresh > seqBase {
		seqBase = in.nfresh
	}
	seqBase++
	return in.res
}

// seqBase: where the numbering of generated names starts in the next Transform.
var seqBase int

// OwnLineDirectives is set by the driver for the second and later rounds: the
// files then carry the //line comments this package printed itself.
var OwnLineDirectives bool

func hasDirective(f *ast.File) bool {
	for _, cg := range f.Comments {
		for _, c := range cg.List {
			if strings.HasPrefix(c.Text, "//go:") || strings.HasPrefix(c.Text, "// +build") || (strings.HasPrefix(c.Text, "//line") && !OwnLineDirectives) {
				return true
			}
		}
	}
	return false
}

func stripDocs(f *ast.File) {
	f.Doc = nil
	ast.Inspect(f, func(n ast.Node) bool {
		switch x := n.(type) {
		case *ast.FuncDecl:
			x.Doc = nil
		case *ast.GenDecl:
			x.Doc = nil
		case *ast.Field:
			x.Doc, x.Comment = nil, nil
		case *ast.TypeSpec:
			x.Doc, x.Comment = nil, nil
		case *ast.ValueSpec:
			x.Doc, x.Comment = nil, nil
		case *ast.ImportSpec:
			x.Doc, x.Comment = nil, nil
		}
		return true
	})
}

var ownLabel = regexp.MustCompile(`^inl[0-9]+_done$`)

// eligibility returns "" when calls of the function may be inlined.
func eligibility(fd *ast.FuncDecl, obj *types.Func) string {
	sig := obj.Type().(*types.Signature)
	reason := ""
	depth := 0
	ast.Inspect(fd.Body, func(n ast.Node) bool {
		switch x := n.(type) {
		case *ast.FuncLit:
			_ = x
			depth++
			// defers / returns inside literals belong to the literal
			return false
		case *ast.DeferStmt:
			if !simpleDefer(fd, x) && !evalDefer(fd, x) {
				reason = "contains a conditional defer, or a deferred call of a computed function"
			}
		case *ast.LabeledStmt:
			// labels written by an earlier round of this inliner are
			// renumbered when the body is copied
			// ... and so are the labels the callee was written with (every
			// label of a copied body gets a fresh name, and so do the break /
			// continue statements that name it; goto is refused below)
			_ = ownLabel
		case *ast.BranchStmt:
			if x.Tok == token.GOTO {
				reason = "contains goto"
			}
		case *ast.CallExpr:
			if id, ok := x.Fun.(*ast.Ident); ok && id.Name == "recover" {
				reason = "calls recover"
			}
		}
		return true
	})
	if reason != "" {
		return reason
	}
	for i := 0; i < sig.Params().Len(); i++ {
		if sig.Params().At(i).Name() == "" && false {
			return "unnamed parameter"
		}
	}
	return ""
}

// simpleDefer: d is a statement of the function body's own statement list
// (so it runs unconditionally, once) and defers an argument-less call of a
// function or method named through identifiers and selectors only
// (`mu.Unlock()`, `s.wg.Done()`): nothing is evaluated at the defer statement
// that could differ at the point where the call is made.
func simpleDefer(fd *ast.FuncDecl, d *ast.DeferStmt) bool {
	top := false
	for _, st := range fd.Body.List {
		if st == ast.Stmt(d) {
			top = true
		}
	}
	if !top || len(d.Call.Args) != 0 {
		return false
	}
	var pure func(e ast.Expr) bool
	pure = func(e ast.Expr) bool {
		switch x := e.(type) {
		case *ast.Ident:
			return true
		case *ast.SelectorExpr:
			return pure(x.X)
		case *ast.ParenExpr:
			return pure(x.X)
		}
		return false
	}
	return pure(d.Call.Fun)
}

// evalDefer: d is a statement of the function body's own statement list and
// defers either a function literal called without arguments or a call, with
// arguments, of a function or method named through identifiers and selectors:
// the arguments (and the literal) are evaluated into temporaries where the
// defer statement stood, and the call is made with them on every way out
// behind it, after the results have been assigned (named results first, so a
// deferred literal sees and may change them as the language says).
func evalDefer(fd *ast.FuncDecl, d *ast.DeferStmt) bool {
	top := false
	for _, st := range fd.Body.List {
		if st == ast.Stmt(d) {
			top = true
		}
	}
	if !top {
		return false
	}
	if _, isLit := d.Call.Fun.(*ast.FuncLit); isLit {
		return len(d.Call.Args) == 0
	}
	var pure func(e ast.Expr) bool
	pure = func(e ast.Expr) bool {
		switch x := e.(type) {
		case *ast.Ident:
			return true
		case *ast.SelectorExpr:
			return pure(x.X)
		case *ast.ParenExpr:
			return pure(x.X)
		}
		return false
	}
	return pure(d.Call.Fun) && !d.Call.Ellipsis.IsValid()
}

// expandCallee rewrites the body of a new function itself (nested helpers).
func (in *inliner) expandCallee(c *callee) {
	switch in.state[c.obj] {
	case 2:
		return
	case 1:
		c.reason = "recursive"
		return
	}
	in.state[c.obj] = 1
	in.rewriteBody(c.pkg, c.file, c.decl.Body, c.decl)
	in.state[c.obj] = 2
}

// ---- call-site rewriting ----

// site describes an inlinable call inside a statement.
type site struct {
	call *ast.CallExpr
	c    *callee
	recv ast.Expr // receiver expression for method calls
	// type of recv (differs from the written operand for promoted methods)
	recvType types.Type
	// instantiation of a generic callee at this call
	inst  *types.Signature
	targs *types.TypeList
	// the call is the whole operand of a return statement of the caller
	tail bool
}

func (in *inliner) calleeOf(pk *packages.Package, call *ast.CallExpr) *site {
	funExpr := call.Fun
	switch x := funExpr.(type) {
	case *ast.IndexExpr:
		switch x.X.(type) {
		case *ast.Ident, *ast.SelectorExpr:
			funExpr = x.X
		}
	case *ast.IndexListExpr:
		switch x.X.(type) {
		case *ast.Ident, *ast.SelectorExpr:
			funExpr = x.X
		}
	}
	switch fun := funExpr.(type) {
	case *ast.Ident:
		obj, _ := pk.TypesInfo.Uses[fun].(*types.Func)
		if obj != nil {
			obj = obj.Origin()
		}
		if c := in.callees[obj]; c != nil && c.pkg == pk {
			st := &site{call: call, c: c}
			if inst, ok := pk.TypesInfo.Instances[fun]; ok {
				st.inst, _ = inst.Type.(*types.Signature)
				st.targs = inst.TypeArgs
			}
			return st
		}
		if v, _ := pk.TypesInfo.Uses[fun].(*types.Var); v != nil {
			if c := in.closures[v]; c != nil && c.pkg == pk {
				return &site{call: call, c: c}
			}
		}
	case *ast.SelectorExpr:
		obj, _ := pk.TypesInfo.Uses[fun.Sel].(*types.Func)
		if obj != nil {
			obj = obj.Origin()
		}
		c := in.callees[obj]
		// a function of another package of the module, called by its
		// qualified name (a helper package that is new as a whole)
		if xid, isId := fun.X.(*ast.Ident); isId && c != nil && c.pkg != pk {
			if _, isPkg := pk.TypesInfo.Uses[xid].(*types.PkgName); isPkg && c.decl.Recv == nil {
				st := &site{call: call, c: c}
				if inst, ok := pk.TypesInfo.Instances[fun.Sel]; ok {
					st.inst, _ = inst.Type.(*types.Signature)
					st.targs = inst.TypeArgs
				}
				return st
			}
		}
		if c == nil || c.pkg != pk {
			return nil
		}
		sel := pk.TypesInfo.Selections[fun]
		if sel == nil || sel.Kind() != types.MethodVal {
			return nil // method expression, ...
		}
		// methods promoted through embedded fields: spell the path out
		var recv ast.Expr = fun.X
		t := pk.TypesInfo.TypeOf(fun.X)
		idx := sel.Index()
		for _, i := range idx[:len(idx)-1] {
			if t == nil {
				return nil
			}
			if p, ok := t.Underlying().(*types.Pointer); ok {
				t = p.Elem()
			}
			st, ok := t.Underlying().(*types.Struct)
			if !ok || i >= st.NumFields() {
				return nil
			}
			f := st.Field(i)
			recv = &ast.SelectorExpr{X: recv, Sel: ast.NewIdent(f.Name())}
			t = f.Type()
		}
		return &site{call: call, c: c, recv: recv, recvType: t}
	}
	return nil
}

// rewriteBody walks the statement lists of a function body (function literals
// included) and splices inlined bodies in.
func (in *inliner) rewriteBody(pk *packages.Package, file *ast.File, body *ast.BlockStmt, owner *ast.FuncDecl) {
	var walkList func(list []ast.Stmt) []ast.Stmt
	var walkStmt func(s ast.Stmt)
	walkExprLits := func(n ast.Node) {
		ast.Inspect(n, func(x ast.Node) bool {
			if fl, ok := x.(*ast.FuncLit); ok {
				fl.Body.List = walkList(fl.Body.List)
				return false
			}
			return true
		})
	}
	walkStmt = func(s ast.Stmt) {
		switch x := s.(type) {
		case *ast.BlockStmt:
			x.List = walkList(x.List)
		case *ast.IfStmt:
			walkExprLits(x.Cond)
			if x.Init != nil {
				walkExprLits(x.Init)
			}
			x.Body.List = walkList(x.Body.List)
			if x.Else != nil {
				if ei, ok := x.Else.(*ast.IfStmt); ok {
					repl := walkList([]ast.Stmt{ei})
					if len(repl) == 1 {
						if keep, ok := repl[0].(*ast.IfStmt); ok {
							x.Else = keep
							break
						}
					}
					x.Else = &ast.BlockStmt{List: repl}
				} else {
					walkStmt(x.Else)
				}
			}
		case *ast.ForStmt:
			walkExprLits(x)
			x.Body.List = walkList(x.Body.List)
		case *ast.RangeStmt:
			walkExprLits(x.X)
			x.Body.List = walkList(x.Body.List)
		case *ast.SwitchStmt:
			for _, cc := range x.Body.List {
				cl := cc.(*ast.CaseClause)
				cl.Body = walkList(cl.Body)
			}
		case *ast.TypeSwitchStmt:
			for _, cc := range x.Body.List {
				cl := cc.(*ast.CaseClause)
				cl.Body = walkList(cl.Body)
			}
		case *ast.SelectStmt:
			for _, cc := range x.Body.List {
				cl := cc.(*ast.CommClause)
				cl.Body = walkList(cl.Body)
			}
		case *ast.LabeledStmt:
			walkStmt(x.Stmt)
		default:
			walkExprLits(s)
		}
	}
	walkList = func(list []ast.Stmt) []ast.Stmt {
		var out []ast.Stmt
		for _, s := range list {
			repl := in.tryInline(pk, file, s, owner)
			if repl == nil {
				walkStmt(s)
				out = append(out, s)
				continue
			}
			// the replacement may contain further sites (the trailing original
			// statement's nested blocks, and nothing else: inlined bodies were
			// expanded before they were copied)
			for _, r := range repl {
				if r == repl[len(repl)-1] {
					walkStmt(r)
				}
				out = append(out, r)
			}
		}
		return out
	}
	body.List = walkList(body.List)
	in.dropClosureDefs(body)
}

// tryInline returns the statements replacing s, or nil.
func (in *inliner) tryInline(pk *packages.Package, file *ast.File, s ast.Stmt, owner *ast.FuncDecl) []ast.Stmt {
	callIn := func(e ast.Expr) (*ast.CallExpr, bool) {
		neg := false
		for {
			switch x := e.(type) {
			case *ast.ParenExpr:
				e = x.X
				continue
			case *ast.UnaryExpr:
				if x.Op == token.NOT && !neg {
					neg = true
					e = x.X
					continue
				}
			}
			break
		}
		c, ok := e.(*ast.CallExpr)
		return c, ok && true
	}
	switch x := s.(type) {
	case *ast.ExprStmt:
		call, ok := x.X.(*ast.CallExpr)
		if !ok {
			return nil
		}
		st := in.calleeOf(pk, call)
		if st == nil {
			return nil
		}
		pre, results := in.expand(pk, file, st, owner)
		if pre == nil {
			return nil
		}
		for _, r := range results {
			pre = append(pre, &ast.AssignStmt{Lhs: []ast.Expr{ast.NewIdent("_")}, Tok: token.ASSIGN, Rhs: []ast.Expr{ast.NewIdent(r)}})
		}
		return pre
	case *ast.AssignStmt:
		if len(x.Rhs) != 1 {
			return nil
		}
		call, ok := x.Rhs[0].(*ast.CallExpr)
		if !ok || (x.Tok != token.ASSIGN && x.Tok != token.DEFINE) {
			return nil
		}
		st := in.calleeOf(pk, call)
		if st == nil {
			return nil
		}
		pre, results := in.expand(pk, file, st, owner)
		if pre == nil || len(results) != len(x.Lhs) {
			return nil
		}
		x.Rhs = idents(results)
		return append(pre, x)
	case *ast.ReturnStmt:
		if len(x.Results) != 1 {
			return nil
		}
		call, ok := x.Results[0].(*ast.CallExpr)
		if !ok {
			return nil
		}
		st := in.calleeOf(pk, call)
		if st == nil {
			return nil
		}
		// `return f(..)`: every way out of f becomes a return of the function
		// (literal) this statement belongs to, which is where f's results went
		st.tail = true
		pre, results := in.expand(pk, file, st, owner)
		if pre == nil || len(results) == 0 {
			return nil
		}
		x.Results = idents(results)
		return append(pre, x)
	case *ast.IfStmt:
		// if <init with sole call>; cond
		if x.Init != nil {
			_, initIsExpr := x.Init.(*ast.ExprStmt)
			if repl := in.tryInline(pk, file, x.Init, owner); repl != nil {
				if initIsExpr {
					x.Init = nil
				} else {
					x.Init = repl[len(repl)-1]
					repl = repl[:len(repl)-1]
				}
				return []ast.Stmt{&ast.BlockStmt{List: append(repl, x)}}
			}
		}
		// if call / if !call
		call, ok := callIn(x.Cond)
		if !ok {
			return nil
		}
		st := in.calleeOf(pk, call)
		if st == nil {
			return nil
		}
		pre, results := in.expand(pk, file, st, owner)
		if pre == nil || len(results) != 1 {
			return nil
		}
		replaceCall(&x.Cond, call, ast.NewIdent(results[0]))
		var list []ast.Stmt
		if x.Init != nil {
			list = append(list, x.Init)
			x.Init = nil
		}
		list = append(list, pre...)
		list = append(list, x)
		return []ast.Stmt{&ast.BlockStmt{List: list}}
	}
	return nil
}

func idents(names []string) []ast.Expr {
	var out []ast.Expr
	for _, n := range names {
		out = append(out, ast.NewIdent(n))
	}
	return out
}

func replaceCall(e *ast.Expr, call *ast.CallExpr, with ast.Expr) {
	switch x := (*e).(type) {
	case *ast.CallExpr:
		if x == call {
			*e = with
		}
	case *ast.ParenExpr:
		replaceCall(&x.X, call, with)
	case *ast.UnaryExpr:
		replaceCall(&x.X, call, with)
	}
}

// expand builds the statements that evaluate the call: argument temporaries,
// result variables and the (copied, rewritten) body inside a labelled switch.
// It returns nil when the site cannot be inlined safely.
func (in *inliner) expand(pk *packages.Package, file *ast.File, st *site, ownerDecl *ast.FuncDecl) ([]ast.Stmt, []string) {
	owner := FuncName(pk.PkgPath, ownerDecl)
	c := st.c
	if c.reason == "" {
		in.expandCallee(c)
	}
	if c.reason != "" {
		return nil, nil
	}
	fail := func(why string) ([]ast.Stmt, []string) {
		c.reason = "a call in " + shortName(owner) + " was left alone: " + why
		return nil, nil
	}
	sig := c.obj.Type().(*types.Signature)
	if sig.RecvTypeParams().Len() > 0 {
		// a method of a generic type: only into a method of the same type
		// whose receiver spells the type parameters the same way
		sameSpelling := ownerDecl.Recv != nil && c.decl.Recv != nil && exprString(ownerDecl.Recv.List[0].Type) == exprString(c.decl.Recv.List[0].Type)
		// ... or into a function whose own type parameters, under the very
		// names the callee's receiver uses, are the type arguments of the
		// receiver at this call (a helper type putOp[K, V] used by the methods
		// of Cache[K, V]): the copied body then means the same types
		if !sameSpelling {
			rt := st.recvType
			if p, isP := rt.(*types.Pointer); isP {
				rt = p.Elem()
			}
			named, _ := rt.(*types.Named)
			if named != nil && named.TypeArgs().Len() == sig.RecvTypeParams().Len() {
				sameSpelling = true
				for i := 0; i < named.TypeArgs().Len(); i++ {
					tp, isTP := named.TypeArgs().At(i).(*types.TypeParam)
					if !isTP || tp.Obj().Name() != sig.RecvTypeParams().At(i).Obj().Name() {
						sameSpelling = false
					}
				}
			}
		}
		if !sameSpelling {
			return fail("method of a generic type called from outside that type's methods")
		}
	}
	gsig := sig
	// the calling function is generic itself: the callee's type parameters
	// cannot be local aliases there (an alias of a type parameter is not
	// allowed, and the names may coincide); they are written as the type
	// arguments instead
	ownerGeneric := false
	tpSub := map[*types.TypeName]string{}
	if sig.TypeParams().Len() > 0 {
		if st.inst == nil || st.targs == nil || st.targs.Len() != sig.TypeParams().Len() {
			return fail("generic callee without a recorded instantiation")
		}
		if ownerDecl.Type.TypeParams != nil && len(ownerDecl.Type.TypeParams.List) > 0 {
			ownerGeneric = true
		}
		if ownerDecl.Recv != nil && len(ownerDecl.Recv.List) == 1 {
			rt := ownerDecl.Recv.List[0].Type
			if se, ok := rt.(*ast.StarExpr); ok {
				rt = se.X
			}
			switch rt.(type) {
			case *ast.IndexExpr, *ast.IndexListExpr:
				ownerGeneric = true
			}
		}
		sig = st.inst
	}
	nparams := sig.Params().Len()
	switch {
	case !sig.Variadic():
		if len(st.call.Args) != nparams {
			return fail("argument count (multi-value argument)")
		}
		if st.call.Ellipsis.IsValid() {
			return fail("variadic spread")
		}
	case st.call.Ellipsis.IsValid():
		if len(st.call.Args) != nparams {
			return fail("argument count (variadic spread)")
		}
	default:
		if len(st.call.Args) < nparams-1 {
			return fail("argument count (multi-value argument)")
		}
	}
	// import name mapping callee file -> caller file
	q := &qualifier{pk: pk, file: file, in: in, from: c.pkg}
	in.n++
	prefix := fmt.Sprintf("inl%d_", in.n)
	label := prefix + "done"
	var pre []ast.Stmt
	// free identifiers of the callee body must mean the same at the call site
	callScope := pk.Types.Scope().Innermost(st.call.Pos())
	bad := ""
	pkgNames := map[*ast.Ident]string{} // ident (original) -> import path
	crossNames := map[*ast.Ident]string{} // ident -> qualified spelling in the caller
	ast.Inspect(c.decl.Body, func(n ast.Node) bool {
		id, ok := n.(*ast.Ident)
		if !ok {
			return true
		}
		orig := id
		for in.origOf[orig] != nil {
			orig = in.origOf[orig]
		}
		if path, ok := in.pkgIdent[orig]; ok {
			pkgNames[id] = path
			return true
		}
		obj := c.pkg.TypesInfo.Uses[orig]
		if obj == nil {
			return true
		}
		switch o := obj.(type) {
		case *types.PkgName:
			pkgNames[id] = o.Imported().Path()
		default:
			// a closure's captured locals must be the same variables at the
			// call site
			captured := c.lit != nil && obj.Pkg() == c.pkg.Types && obj.Parent() != nil && obj.Parent() != c.pkg.Types.Scope() &&
				(obj.Pos() < c.lit.Pos() || obj.Pos() >= c.lit.End())
			if c.pkg != pk && obj.Parent() == c.pkg.Types.Scope() {
				// a package-level name of the helper's own package, seen
				// from another package: by its qualified name, if it has one
				if qn := q.nameOf(c.pkg.PkgPath); obj.Exported() && qn != "" {
					crossNames[id] = qn + "." + id.Name
				} else {
					bad = "the helper uses the unexported name " + id.Name + " of its own package"
				}
				return true
			}
			if obj.Parent() == c.pkg.Types.Scope() || obj.Parent() == types.Universe || captured {
				if callScope != nil {
					if _, found := callScope.LookupParent(id.Name, st.call.Pos()); found != obj {
						bad = "identifier " + id.Name + " is shadowed at the call site"
					}
				}
			}
		}
		return true
	})
	if bad != "" {
		return fail(bad)
	}
	for _, path := range pkgNames {
		if q.nameOf(path) == "" {
			return fail("the calling file does not import " + path)
		}
	}
	typeExpr := func(t types.Type) (ast.Expr, bool) {
		s := types.TypeString(t, q.qual)
		if q.failed {
			return nil, false
		}
		e, ok := parseTypeExpr(s)
		if !ok {
			return nil, false
		}
		// every name in the type must still mean a type / package at the call
		// site (a parameter or local of the caller may shadow it)
		shadowed := false
		var visit func(n ast.Node) bool
		visit = func(n ast.Node) bool {
			switch x := n.(type) {
			case *ast.Field:
				// parameter, result and field names are not references
				if x.Type != nil {
					ast.Inspect(x.Type, visit)
				}
				return false
			case *ast.SelectorExpr:
				if id, ok := x.X.(*ast.Ident); ok && callScope != nil {
					if _, obj := callScope.LookupParent(id.Name, st.call.Pos()); obj != nil {
						if _, isPkg := obj.(*types.PkgName); !isPkg {
							shadowed = true
						}
					}
				}
				return false
			case *ast.Ident:
				if callScope != nil {
					if _, obj := callScope.LookupParent(x.Name, st.call.Pos()); obj != nil {
						if _, isType := obj.(*types.TypeName); !isType {
							shadowed = true
						}
					}
				}
			}
			return true
		}
		ast.Inspect(e, visit)
		ast.Inspect(e, func(n ast.Node) bool {
			if x, ok := n.(*ast.SelectorExpr); ok {
				if id, ok := x.X.(*ast.Ident); ok {
					if path, ok := q.used[id.Name]; ok {
						in.pkgIdent[id] = path
					}
				}
			}
			return true
		})
		if shadowed {
			// a local of the caller hides a name the type is written with:
			// the type is given a file-level alias (file scope has no such
			// local) and the alias is used at the call site
			if _, isTP := t.(*types.TypeParam); isTP {
				return nil, false
			}
			in.nfresh++
			alias := fmt.Sprintf("inlT%d_", in.nfresh)
			file.Decls = append(file.Decls, &ast.GenDecl{Tok: token.TYPE, Specs: []ast.Spec{&ast.TypeSpec{Name: ast.NewIdent(alias), Assign: 1, Type: e}}})
			in.dirty[file] = true
			return ast.NewIdent(alias), true
		}
		return e, true
	}
	// every variable, constant and type the callee declares (receiver,
	// parameters and named results included) gets a name of its own in the
	// caller: a function literal of the caller that ends up inside the
	// inlined block (it was an argument) must keep seeing the caller's
	// variables, whatever the callee calls its own
	ren := func(name string) string {
		if name == "" || name == "_" {
			return name
		}
		return prefix + name
	}
	declLo, declHi := c.decl.Pos(), c.decl.End()
	if c.lit != nil {
		declLo, declHi = c.lit.Pos(), c.lit.End()
	}
	calleeLocal := func(obj types.Object) bool {
		switch o := obj.(type) {
		case *types.Var:
			if o.IsField() {
				return false
			}
		case *types.Const:
		case *types.TypeName:
			if _, isTP := o.Type().(*types.TypeParam); isTP {
				return false
			}
		default:
			return false
		}
		if obj.Parent() == nil || obj.Parent() == c.pkg.Types.Scope() || obj.Parent() == types.Universe {
			return false
		}
		return obj.Pos() >= declLo && obj.Pos() < declHi
	}
	// parameters bound to function literals (see below): parameter -> fresh name
	litParam := map[*types.Var]string{}
	// ... and, for those that are other names of a caller's variable, the
	// caller's identifier (what a copy of the parameter's name stands for)
	aliasIdent := map[*types.Var]*ast.Ident{}
	// receiver and arguments, in evaluation order
	type bind struct {
		name string // callee-side name
		tmp  string
	}
	var binds []bind
	if st.recv != nil {
		recvVar := sig.Recv()
		var e ast.Expr = st.recv
		_, wantPtr := recvVar.Type().(*types.Pointer)
		et := st.recvType
		if et == nil {
			return fail("receiver type unknown")
		}
		_, havePtr := et.Underlying().(*types.Pointer)
		if _, isNamedPtr := et.(*types.Pointer); isNamedPtr {
			havePtr = true
		}
		switch {
		case wantPtr && !havePtr:
			e = &ast.UnaryExpr{Op: token.AND, X: st.recv}
		case !wantPtr && havePtr:
			e = &ast.StarExpr{X: st.recv}
		}
		name := ""
		var recvObj *types.Var
		if c.decl.Recv != nil && len(c.decl.Recv.List) == 1 && len(c.decl.Recv.List[0].Names) == 1 {
			name = c.decl.Recv.List[0].Names[0].Name
			recvObj, _ = c.pkg.TypesInfo.Defs[c.decl.Recv.List[0].Names[0]].(*types.Var)
		}
		if alias, ok := in.stableAlias(pk, ownerDecl, c, e, recvObj); ok && e == st.recv {
			// the receiver is a local of the caller that is never assigned
			// again, and the callee leaves its receiver variable alone: the
			// callee's name for it is another name for that local
			litParam[recvObj] = alias
			aliasIdent[recvObj] = e.(*ast.Ident)
		} else {
			tmp := prefix + "recv"
			pre = append(pre, &ast.AssignStmt{Lhs: []ast.Expr{ast.NewIdent(tmp)}, Tok: token.DEFINE, Rhs: []ast.Expr{e}})
			pre = append(pre, &ast.AssignStmt{Lhs: []ast.Expr{ast.NewIdent("_")}, Tok: token.ASSIGN, Rhs: []ast.Expr{ast.NewIdent(tmp)}})
			binds = append(binds, bind{ren(name), tmp})
		}
	}
	for i := 0; i < nparams; i++ {
		pt := sig.Params().At(i).Type()
		te, ok := typeExpr(pt)
		if !ok {
			return fail("a parameter type cannot be written in the calling file")
		}
		var vals []ast.Expr
		var argI ast.Expr
		if i < len(st.call.Args) && !(sig.Variadic() && i == nparams-1) {
			argI = st.call.Args[i]
		}
		if lit, isLit := argI.(*ast.FuncLit); isLit {
			// a function literal handed to a parameter that the callee only
			// ever calls: the literal becomes a local closure of the caller
			// under a fresh name (evaluating a literal has no effect, so its
			// place in the argument order does not matter); the next round
			// inlines its calls like those of any new local closure
			pv := gsig.Params().At(i)
			if pv.Name() != "" && pv.Name() != "_" && in.onlyCalled(c, pv) {
				fresh := fmt.Sprintf("%sfn_%s", prefix, pv.Name())
				pre = append(pre, &ast.AssignStmt{Lhs: []ast.Expr{ast.NewIdent(fresh)}, Tok: token.DEFINE, Rhs: []ast.Expr{lit}})
				litParam[pv] = fresh
				continue
			}
		}
		if argI != nil {
			if alias, ok := in.stableAlias(pk, ownerDecl, c, argI, gsig.Params().At(i)); ok && sig.TypeParams().Len() == 0 && types.Identical(pk.TypesInfo.TypeOf(argI), pt) {
				litParam[gsig.Params().At(i)] = alias
				aliasIdent[gsig.Params().At(i)] = argI.(*ast.Ident)
				continue
			}
		}
		if argI != nil {
			// a named constant of exactly the parameter's type handed to a
			// parameter the callee only reads: the body names the constant
			pv := gsig.Params().At(i)
			if name, ok := in.namedConst(pk, argI); ok && types.Identical(pk.TypesInfo.TypeOf(argI), pt) &&
				pv.Name() != "" && pv.Name() != "_" && in.onlyRead(c, pv) && !in.mentions(c, strings.SplitN(name, ".", 2)[0]) {
				litParam[pv] = name
				continue
			}
		}
		if id, isId := argI.(*ast.Ident); isId {
			// a package-level variable of this package that is set where it
			// is declared and never again (`var byteOrder =
			// binary.BigEndian`), handed to a parameter the callee only
			// reads: the body names the variable
			pv := gsig.Params().At(i)
			if gv, _ := pk.TypesInfo.Uses[id].(*types.Var); gv != nil && gv.Parent() == pk.Types.Scope() && (types.Identical(gv.Type(), pt) || (types.IsInterface(pt) && !types.IsInterface(gv.Type()) && types.AssignableTo(gv.Type(), pt))) &&
				pv.Name() != "" && pv.Name() != "_" && in.onlyRead(c, pv) && !in.mentions(c, id.Name) && in.neverAssigned(pk, gv) {
				litParam[pv] = id.Name
				continue
			}
		}
		if argI != nil {
			// a method expression of a type of this package handed to a
			// parameter that the callee only ever calls: the calls name the
			// method expression directly (normalizeMethodExprCalls then
			// spells them as method calls)
			pv := gsig.Params().At(i)
			if name, ok := in.methodExprArg(pk, argI); ok && c.pkg == pk && pv.Name() != "" && pv.Name() != "_" && in.onlyCalled(c, pv) && !in.mentions(c, strings.TrimLeft(strings.SplitN(name, ".", 2)[0], "(*")) {
				litParam[pv] = name
				continue
			}
		}
		if id, isId := argI.(*ast.Ident); isId {
			// a package-level function of this package handed to a parameter
			// that the callee only ever calls: the calls name the function
			// directly (unless the callee's body uses that name for something
			// else)
			pv := gsig.Params().At(i)
			if fn, _ := pk.TypesInfo.Uses[id].(*types.Func); fn != nil && fn.Pkg() == pk.Types && fn.Parent() == pk.Types.Scope() &&
				pv.Name() != "" && pv.Name() != "_" && in.onlyCalled(c, pv) && !in.mentions(c, id.Name) {
				litParam[pv] = id.Name
				continue
			}
		}
		switch {
		case sig.Variadic() && i == nparams-1 && !st.call.Ellipsis.IsValid():
			// the arguments given for the variadic parameter, as a slice
			// (nil when there are none)
			if extra := st.call.Args[i:]; len(extra) > 0 {
				te2, _ := typeExpr(pt)
				vals = []ast.Expr{&ast.CompositeLit{Type: te2, Elts: extra}}
			}
		default:
			vals = []ast.Expr{st.call.Args[i]}
		}
		tmp := fmt.Sprintf("%sa%d", prefix, i)
		pre = append(pre, &ast.DeclStmt{Decl: &ast.GenDecl{Tok: token.VAR, Specs: []ast.Spec{&ast.ValueSpec{Names: []*ast.Ident{ast.NewIdent(tmp)}, Type: te, Values: vals}}}})
		pre = append(pre, &ast.AssignStmt{Lhs: []ast.Expr{ast.NewIdent("_")}, Tok: token.ASSIGN, Rhs: []ast.Expr{ast.NewIdent(tmp)}})
		binds = append(binds, bind{ren(sig.Params().At(i).Name()), tmp})
	}
	var results []string
	for i := 0; i < sig.Results().Len(); i++ {
		te, ok := typeExpr(sig.Results().At(i).Type())
		if !ok {
			return fail("a result type cannot be written in the calling file")
		}
		r := fmt.Sprintf("%sr%d", prefix, i)
		results = append(results, r)
		pre = append(pre, &ast.DeclStmt{Decl: &ast.GenDecl{Tok: token.VAR, Specs: []ast.Spec{&ast.ValueSpec{Names: []*ast.Ident{ast.NewIdent(r)}, Type: te}}}})
	}
	// body copy
	var inner, paramBinds []ast.Stmt
	for _, b := range binds {
		if b.name == "" || b.name == "_" {
			continue
		}
		paramBinds = append(paramBinds, &ast.AssignStmt{Lhs: []ast.Expr{ast.NewIdent(b.name)}, Tok: token.DEFINE, Rhs: []ast.Expr{ast.NewIdent(b.tmp)}})
		paramBinds = append(paramBinds, &ast.AssignStmt{Lhs: []ast.Expr{ast.NewIdent("_")}, Tok: token.ASSIGN, Rhs: []ast.Expr{ast.NewIdent(b.name)}})
	}
	// a generic callee: its type parameters are local aliases of the type
	// arguments of this call
	for i := 0; i < gsig.TypeParams().Len(); i++ {
		if ownerGeneric {
			if tp, isTP := st.targs.At(i).(*types.TypeParam); isTP {
				tpSub[gsig.TypeParams().At(i).Obj()] = tp.Obj().Name()
				continue
			}
			te, ok := typeExpr(st.targs.At(i))
			if !ok {
				return fail("a type argument cannot be written in the calling file")
			}
			name := fmt.Sprintf("%stp%d", prefix, i)
			pre = append(pre, &ast.DeclStmt{Decl: &ast.GenDecl{Tok: token.TYPE, Specs: []ast.Spec{&ast.TypeSpec{Name: ast.NewIdent(name), Assign: 1, Type: te}}}})
			tpSub[gsig.TypeParams().At(i).Obj()] = name
			continue
		}
		te, ok := typeExpr(st.targs.At(i))
		if !ok {
			return fail("a type argument cannot be written in the calling file")
		}
		inner = append(inner, &ast.DeclStmt{Decl: &ast.GenDecl{Tok: token.TYPE, Specs: []ast.Spec{&ast.TypeSpec{Name: ast.NewIdent(gsig.TypeParams().At(i).Obj().Name()), Assign: 1, Type: te}}}})
	}
	// named results are ordinary variables of the body; they are declared
	// before the parameters are bound (a parameter may shadow a type name)
	var namedRes []string
	for i := 0; i < sig.Results().Len(); i++ {
		rn := ren(sig.Results().At(i).Name())
		namedRes = append(namedRes, rn)
		if rn == "" || rn == "_" {
			continue
		}
		te, _ := typeExpr(sig.Results().At(i).Type())
		inner = append(inner, &ast.DeclStmt{Decl: &ast.GenDecl{Tok: token.VAR, Specs: []ast.Spec{&ast.ValueSpec{Names: []*ast.Ident{ast.NewIdent(rn)}, Type: te}}}})
		inner = append(inner, &ast.AssignStmt{Lhs: []ast.Expr{ast.NewIdent("_")}, Tok: token.ASSIGN, Rhs: []ast.Expr{ast.NewIdent(rn)}})
	}
	inner = append(inner, paramBinds...)
	body := cloneNode(c.decl.Body, func(orig, cp *ast.Ident) {
		in.origOf[cp] = orig
		if path, ok := pkgNames[orig]; ok {
			cp.Name = q.nameOf(path)
		}
		if qn, ok := crossNames[orig]; ok {
			cp.Name = qn
			return
		}
		o := orig
		for in.origOf[o] != nil {
			o = in.origOf[o]
		}
		obj := c.pkg.TypesInfo.Uses[o]
		if obj == nil {
			obj = c.pkg.TypesInfo.Defs[o]
		}
		if obj == nil {
			// the symbolic variable of a type switch (`switch v := x.(type)`)
			// is recorded as a definition without an object; its uses are
			// the per-clause variables, declared at its position
			if d, isDef := c.pkg.TypesInfo.Defs[o]; isDef && d == nil && o.Pos() >= declLo && o.Pos() < declHi {
				cp.Name = ren(cp.Name)
			}
			return
		}
		if tn, _ := obj.(*types.TypeName); tn != nil {
			if sub, ok := tpSub[tn]; ok {
				cp.Name = sub
				return
			}
		}
		if v, _ := obj.(*types.Var); v != nil {
			if fresh, ok := litParam[v]; ok {
				cp.Name = fresh
				if ai := aliasIdent[v]; ai != nil {
					in.origOf[cp] = ai
				}
				return
			}
		}
		if calleeLocal(obj) && cp.Name == obj.Name() {
			cp.Name = ren(cp.Name)
		}
	}).(*ast.BlockStmt)
	// labels of nested, already expanded helpers must stay unique per function
	relabel := map[string]string{}
	ast.Inspect(body, func(n ast.Node) bool {
		if ls, ok := n.(*ast.LabeledStmt); ok {
			in.n++
			relabel[ls.Label.Name] = fmt.Sprintf("inl%d_done", in.n)
		}
		return true
	})
	if len(relabel) > 0 {
		ast.Inspect(body, func(n ast.Node) bool {
			switch x := n.(type) {
			case *ast.LabeledStmt:
				if nn, ok := relabel[x.Label.Name]; ok {
					x.Label = ast.NewIdent(nn)
				}
			case *ast.BranchStmt:
				if x.Label != nil {
					if nn, ok := relabel[x.Label.Name]; ok {
						x.Label = ast.NewIdent(nn)
					}
				}
			}
			return true
		})
	}
	// unconditional `defer x.y.Unlock()`-style statements at the top level of
	// the body: the call is made explicitly on every way out that lies behind
	// the defer statement (after the results have been assigned, as the
	// language does; what differs is a panic, which the rules do not model)
	var defers []*ast.DeferStmt
	// what is evaluated where the defer statement stands (a function literal,
	// the arguments), kept in temporaries: defer statement -> call to make
	evaluated := map[*ast.DeferStmt]*ast.CallExpr{}
	closureDefer := false
	{
		var keep []ast.Stmt
		for _, st := range body.List {
			d, ok := st.(*ast.DeferStmt)
			if !ok {
				keep = append(keep, st)
				continue
			}
			defers = append(defers, d)
			k := len(defers) - 1
			if lit, isLit := d.Call.Fun.(*ast.FuncLit); isLit {
				closureDefer = true
				tmp := fmt.Sprintf("%sd%d", prefix, k)
				keep = append(keep, &ast.AssignStmt{Lhs: []ast.Expr{ast.NewIdent(tmp)}, Tok: token.DEFINE, Rhs: []ast.Expr{lit}})
				keep = append(keep, &ast.AssignStmt{Lhs: []ast.Expr{ast.NewIdent("_")}, Tok: token.ASSIGN, Rhs: []ast.Expr{ast.NewIdent(tmp)}})
				evaluated[d] = &ast.CallExpr{Fun: ast.NewIdent(tmp)}
				continue
			}
			if len(d.Call.Args) > 0 {
				var args []ast.Expr
				for j, a := range d.Call.Args {
					tmp := fmt.Sprintf("%sd%da%d", prefix, k, j)
					keep = append(keep, &ast.AssignStmt{Lhs: []ast.Expr{ast.NewIdent(tmp)}, Tok: token.DEFINE, Rhs: []ast.Expr{a}})
					keep = append(keep, &ast.AssignStmt{Lhs: []ast.Expr{ast.NewIdent("_")}, Tok: token.ASSIGN, Rhs: []ast.Expr{ast.NewIdent(tmp)}})
					args = append(args, ast.NewIdent(tmp))
				}
				evaluated[d] = &ast.CallExpr{Fun: d.Call.Fun, Args: args}
			}
		}
		body.List = keep
	}
	deferredCalls := func(at token.Pos, all bool) []ast.Stmt {
		var out []ast.Stmt
		for i := len(defers) - 1; i >= 0; i-- {
			d := defers[i]
			if !all && !(d.Pos() < at) {
				continue
			}
			src := d.Call
			if ev := evaluated[d]; ev != nil {
				src = ev
			}
			call := cloneNode(src, func(orig, cp *ast.Ident) {
				o := orig
				if in.origOf[o] != nil {
					o = in.origOf[o]
				}
				in.origOf[cp] = o
			}).(*ast.CallExpr)
			out = append(out, &ast.ExprStmt{X: call})
		}
		return out
	}
	allNamedRes := sig.Results().Len() > 0
	for _, rn := range namedRes {
		if rn == "" || rn == "_" {
			allNamedRes = false
		}
	}
	// how a way out of the callee's body is written: a break out of the
	// labelled block, or, when the call is the whole operand of a return
	// statement of the caller, that return itself (each way out of the helper
	// then is a way out of the caller, as it was before the helper was
	// extracted; the results were stored, and the deferred calls made, before)
	leave := func() ast.Stmt {
		if st.tail {
			return &ast.ReturnStmt{Results: idents(results)}
		}
		return &ast.BranchStmt{Tok: token.BREAK, Label: ast.NewIdent(label)}
	}
	okRet := true
	rewriteReturns(body, func(r *ast.ReturnStmt) []ast.Stmt {
		var out []ast.Stmt
		switch {
		case len(r.Results) == 0:
			for i, rn := range namedRes {
				if rn == "" || rn == "_" {
					if len(namedRes) > 0 && sig.Results().Len() > 0 {
						okRet = okRet && rn == "_"
					}
					continue
				}
				out = append(out, &ast.AssignStmt{Lhs: []ast.Expr{ast.NewIdent(results[i])}, Tok: token.ASSIGN, Rhs: []ast.Expr{ast.NewIdent(rn)}})
			}
		case closureDefer && allNamedRes && (len(r.Results) == len(results) || len(r.Results) == 1):
			// return X with named results and a deferred literal: the results
			// are stored in the named variables, the deferred calls run (and
			// may read or change them), and their final values are returned
			out = append(out, &ast.AssignStmt{Lhs: idents(namedRes), Tok: token.ASSIGN, Rhs: r.Results})
			out = append(out, deferredCalls(r.Pos(), false)...)
			out = append(out, &ast.AssignStmt{Lhs: idents(results), Tok: token.ASSIGN, Rhs: idents(namedRes)})
			out = append(out, leave())
			return out
		case len(r.Results) == len(results):
			out = append(out, &ast.AssignStmt{Lhs: idents(results), Tok: token.ASSIGN, Rhs: r.Results})
		case len(r.Results) == 1 && len(results) > 1:
			out = append(out, &ast.AssignStmt{Lhs: idents(results), Tok: token.ASSIGN, Rhs: r.Results})
		default:
			okRet = false
		}
		if closureDefer && allNamedRes && len(r.Results) == 0 {
			// bare return: deferred calls first, then the named values
			out = append(deferredCalls(r.Pos(), false), out...)
			out = append(out, leave())
			return out
		}
		out = append(out, deferredCalls(r.Pos(), false)...)
		out = append(out, leave())
		return out
	})
	if !okRet {
		return fail("unsupported return shape")
	}
	inner = append(inner, body.List...)
	// falling off the end of a function with named results returns them
	if sig.Results().Len() > 0 {
		allNamed := true
		for _, rn := range namedRes {
			if rn == "" {
				allNamed = false
			}
		}
		if allNamed && closureDefer && allNamedRes {
			inner = append(inner, deferredCalls(token.NoPos, true)...)
		}
		if allNamed {
			for i, rn := range namedRes {
				if rn != "_" {
					inner = append(inner, &ast.AssignStmt{Lhs: []ast.Expr{ast.NewIdent(results[i])}, Tok: token.ASSIGN, Rhs: []ast.Expr{ast.NewIdent(rn)}})
				}
			}
		}
	}
	if !(closureDefer && allNamedRes) {
		inner = append(inner, deferredCalls(token.NoPos, true)...)
	}
	inner = append(inner, leave())
	var sw ast.Stmt = &ast.LabeledStmt{Label: ast.NewIdent(label), Stmt: &ast.SwitchStmt{Body: &ast.BlockStmt{List: []ast.Stmt{&ast.CaseClause{Body: []ast.Stmt{&ast.BlockStmt{List: inner}}}}}}}
	if st.tail {
		// no break leads out of the body: every way out is a return
		sw = &ast.BlockStmt{List: inner}
	}
	pre = append(pre, sw)
	in.dirty[file] = true
	c.sites++
	pos := in.fset.Position(st.call.Pos())
	in.res.Inlined = append(in.res.Inlined, fmt.Sprintf("%s into %s at %s:%d", shortName(FuncName(c.pkg.PkgPath, c.decl)), shortName(owner), shortFile(pos.Filename), pos.Line))
	return pre, results
}

// onlyCalled: every use of parameter pv in the callee's body is the function
// of a call that is neither deferred nor started as a goroutine, and there is
// at least one.
func (in *inliner) onlyCalled(c *callee, pv *types.Var) bool {
	uses, calls := 0, 0
	skip := map[*ast.CallExpr]bool{}
	ast.Inspect(c.decl.Body, func(n ast.Node) bool {
		switch x := n.(type) {
		case *ast.GoStmt:
			skip[x.Call] = true
		case *ast.DeferStmt:
			skip[x.Call] = true
		}
		return true
	})
	resolve := func(id *ast.Ident) *types.Var {
		o := id
		for in.origOf[o] != nil {
			o = in.origOf[o]
		}
		v, _ := c.pkg.TypesInfo.Uses[o].(*types.Var)
		return v
	}
	ast.Inspect(c.decl.Body, func(n ast.Node) bool {
		switch x := n.(type) {
		case *ast.CallExpr:
			if id, ok := x.Fun.(*ast.Ident); ok && !skip[x] && resolve(id) == pv {
				calls++
			}
		case *ast.Ident:
			if resolve(x) == pv {
				uses++
			}
		}
		return true
	})
	return uses > 0 && uses == calls
}

// namedConst: e names a typed constant (`c` or `pkg.C`); the text to write for it.
func (in *inliner) namedConst(pk *packages.Package, e ast.Expr) (string, bool) {
	switch x := e.(type) {
	case *ast.Ident:
		o := x
		for in.origOf[o] != nil {
			o = in.origOf[o]
		}
		if k, _ := pk.TypesInfo.Uses[o].(*types.Const); k != nil && k.Parent() == pk.Types.Scope() {
			if b, isBasic := k.Type().(*types.Basic); !isBasic || b.Info()&types.IsUntyped == 0 {
				return x.Name, true
			}
		}
	case *ast.SelectorExpr:
		q, ok := x.X.(*ast.Ident)
		if !ok {
			return "", false
		}
		o := q
		for in.origOf[o] != nil {
			o = in.origOf[o]
		}
		if _, isPkg := pk.TypesInfo.Uses[o].(*types.PkgName); !isPkg {
			return "", false
		}
		if k, _ := pk.TypesInfo.Uses[x.Sel].(*types.Const); k != nil {
			if b, isBasic := k.Type().(*types.Basic); !isBasic || b.Info()&types.IsUntyped == 0 {
				return q.Name + "." + x.Sel.Name, true
			}
		}
	}
	return "", false
}

// neverAssigned: no file of the package assigns to the package-level variable
// or takes its address (its declaration aside).
func (in *inliner) neverAssigned(pk *packages.Package, gv *types.Var) bool {
	is := func(e ast.Expr) bool {
		for {
			p, ok := e.(*ast.ParenExpr)
			if !ok {
				break
			}
			e = p.X
		}
		id, ok := e.(*ast.Ident)
		if !ok {
			return false
		}
		o := id
		for in.origOf[o] != nil {
			o = in.origOf[o]
		}
		return pk.TypesInfo.Uses[o] == types.Object(gv)
	}
	bad := false
	for _, f := range pk.Syntax {
		ast.Inspect(f, func(n ast.Node) bool {
			switch x := n.(type) {
			case *ast.AssignStmt:
				for _, l := range x.Lhs {
					if is(l) {
						bad = true
					}
				}
			case *ast.IncDecStmt:
				if is(x.X) {
					bad = true
				}
			case *ast.UnaryExpr:
				if x.Op == token.AND && is(x.X) {
					bad = true
				}
			case *ast.RangeStmt:
				if (x.Key != nil && is(x.Key)) || (x.Value != nil && is(x.Value)) {
					bad = true
				}
			}
			return !bad
		})
	}
	return !bad
}

// onlyRead: the callee never assigns to its parameter pv, never takes its
// address and never captures it in a function literal.
func (in *inliner) onlyRead(c *callee, pv *types.Var) bool {
	resolve := func(e ast.Expr) bool {
		for {
			p, ok := e.(*ast.ParenExpr)
			if !ok {
				break
			}
			e = p.X
		}
		id, ok := e.(*ast.Ident)
		if !ok {
			return false
		}
		o := id
		for in.origOf[o] != nil {
			o = in.origOf[o]
		}
		return c.pkg.TypesInfo.Uses[o] == types.Object(pv)
	}
	bad := false
	ast.Inspect(c.decl.Body, func(n ast.Node) bool {
		switch x := n.(type) {
		case *ast.AssignStmt:
			for _, l := range x.Lhs {
				if resolve(l) {
					bad = true
				}
			}
		case *ast.IncDecStmt:
			if resolve(x.X) {
				bad = true
			}
		case *ast.UnaryExpr:
			if x.Op == token.AND && resolve(x.X) {
				bad = true
			}
		case *ast.RangeStmt:
			if (x.Key != nil && resolve(x.Key)) || (x.Value != nil && resolve(x.Value)) {
				bad = true
			}
		}
		return !bad
	})
	return !bad
}

// stableAlias: e is a plain identifier naming a local variable (or parameter)
// of the calling function that is assigned only where it is declared and whose
// address is never taken, and the callee never assigns to (or takes the
// address of) its parameter pv: inside the inlined body pv can then simply be
// called by the caller's name for the value. The callee's own locals all get
// fresh names, so nothing in the body can hide the caller's identifier.
func (in *inliner) stableAlias(pk *packages.Package, owner *ast.FuncDecl, c *callee, e ast.Expr, pv *types.Var) (string, bool) {
	id, ok := e.(*ast.Ident)
	if !ok || pv == nil || owner == nil || owner.Body == nil || id.Name == "_" {
		return "", false
	}
	resolve := func(info *types.Info, x *ast.Ident) types.Object {
		o := x
		for in.origOf[o] != nil {
			o = in.origOf[o]
		}
		if obj := info.Uses[o]; obj != nil {
			return obj
		}
		return info.Defs[o]
	}
	v, _ := resolve(pk.TypesInfo, id).(*types.Var)
	if v == nil || v.IsField() || v.Parent() == nil || v.Parent() == pk.Types.Scope() {
		return "", false
	}
	touched := func(body ast.Node, info *types.Info, target *types.Var, allowDef bool) bool {
		hit := false
		is := func(x ast.Expr) (*ast.Ident, bool) {
			for {
				p, ok := x.(*ast.ParenExpr)
				if !ok {
					break
				}
				x = p.X
			}
			i, ok := x.(*ast.Ident)
			if !ok {
				return nil, false
			}
			return i, resolve(info, i) == types.Object(target)
		}
		ast.Inspect(body, func(n ast.Node) bool {
			switch x := n.(type) {
			case *ast.AssignStmt:
				for _, l := range x.Lhs {
					if i, ok := is(l); ok {
						o := i
						for in.origOf[o] != nil {
							o = in.origOf[o]
						}
						if !(allowDef && x.Tok == token.DEFINE && info.Defs[o] == types.Object(target)) {
							hit = true
						}
					}
				}
			case *ast.IncDecStmt:
				if _, ok := is(x.X); ok {
					hit = true
				}
			case *ast.UnaryExpr:
				if _, ok := is(x.X); ok && x.Op == token.AND {
					hit = true
				}
			case *ast.RangeStmt:
				if x.Key != nil {
					if _, ok := is(x.Key); ok && x.Tok == token.ASSIGN {
						hit = true
					}
				}
				if x.Value != nil {
					if _, ok := is(x.Value); ok && x.Tok == token.ASSIGN {
						hit = true
					}
				}
			}
			return !hit
		})
		return hit
	}
	if touched(owner.Body, pk.TypesInfo, v, true) || touched(c.decl.Body, c.pkg.TypesInfo, pv, false) {
		return "", false
	}
	return id.Name, true
}

// mentions: some identifier of the callee's declaration is spelled name.
func (in *inliner) mentions(c *callee, name string) bool {
	found := false
	ast.Inspect(c.decl, func(n ast.Node) bool {
		if id, ok := n.(*ast.Ident); ok && id.Name == name {
			found = true
		}
		return !found
	})
	return found
}

// returnsOf: the return statement s belongs to the body of owner itself (not
// to a function literal inside it, whose result list may differ).
func (in *inliner) returnsOf(owner *ast.FuncDecl, s ast.Stmt, n int) bool {
	if owner == nil || owner.Body == nil {
		return false
	}
	found := false
	var visit func(n ast.Node) bool
	visit = func(n ast.Node) bool {
		if n == nil || found {
			return false
		}
		if _, isLit := n.(*ast.FuncLit); isLit {
			return false
		}
		if n == ast.Node(s) {
			found = true
			return false
		}
		return true
	}
	ast.Inspect(owner.Body, visit)
	return found
}

func shortName(s string) string {
	s = strings.ReplaceAll(s, "github.com/lightninglabs/neutrino/", "")
	return strings.ReplaceAll(s, "github.com/lightninglabs/neutrino", "neutrino")
}

func shortFile(s string) string {
	if i := strings.LastIndex(s, "/"); i >= 0 {
		return s[i+1:]
	}
	return s
}

// qualifier prints package names as the calling file imports them.
type qualifier struct {
	pk     *packages.Package
	file   *ast.File
	failed bool
	used   map[string]string // name -> path
	// when set: a package the calling file does not import yet, but the
	// helper's package does, is imported under a name of its own
	in   *inliner
	from *packages.Package
}

// addImport imports path into the calling file as inlP_<name> and makes the
// import used (so that a call that is left alone after all breaks nothing).
func (q *qualifier) addImport(path string) string {
	if q.in == nil || q.from == nil || q.from == q.pk {
		return ""
	}
	ip := q.from.Imports[path]
	if ip == nil || ip.Types == nil || strings.Contains(path, "/internal/") && !strings.HasPrefix(path, ModulePath) {
		return ""
	}
	// something exported to mention
	var use ast.Decl
	alias := "inlP_" + ip.Types.Name()
	for _, nm := range ip.Types.Scope().Names() {
		obj := ip.Types.Scope().Lookup(nm)
		if !obj.Exported() {
			continue
		}
		sel := &ast.SelectorExpr{X: ast.NewIdent(alias), Sel: ast.NewIdent(nm)}
		switch o := obj.(type) {
		case *types.Const:
			use = &ast.GenDecl{Tok: token.CONST, Specs: []ast.Spec{&ast.ValueSpec{Names: []*ast.Ident{ast.NewIdent("_")}, Values: []ast.Expr{sel}}}}
		case *types.Var:
			use = &ast.GenDecl{Tok: token.VAR, Specs: []ast.Spec{&ast.ValueSpec{Names: []*ast.Ident{ast.NewIdent("_")}, Values: []ast.Expr{sel}}}}
		case *types.Func:
			if sig, _ := o.Type().(*types.Signature); sig != nil && sig.TypeParams().Len() == 0 {
				use = &ast.GenDecl{Tok: token.VAR, Specs: []ast.Spec{&ast.ValueSpec{Names: []*ast.Ident{ast.NewIdent("_")}, Values: []ast.Expr{sel}}}}
			}
		}
		if use != nil {
			break
		}
	}
	if use == nil {
		return ""
	}
	spec := &ast.ImportSpec{Name: ast.NewIdent(alias), Path: &ast.BasicLit{Kind: token.STRING, Value: strconv.Quote(path)}}
	q.file.Imports = append(q.file.Imports, spec)
	q.file.Decls = append([]ast.Decl{&ast.GenDecl{Tok: token.IMPORT, Specs: []ast.Spec{spec}}}, q.file.Decls...)
	q.file.Decls = append(q.file.Decls, use)
	q.in.dirty[q.file] = true
	return alias
}

func (q *qualifier) nameOf(path string) string {
	for _, imp := range q.file.Imports {
		p := strings.Trim(imp.Path.Value, "\"")
		if p != path {
			continue
		}
		if imp.Name != nil {
			if imp.Name.Name == "_" || imp.Name.Name == "." {
				return ""
			}
			return imp.Name.Name
		}
		if ip := q.pk.Imports[path]; ip != nil {
			return ip.Name
		}
		if i := strings.LastIndex(path, "/"); i >= 0 {
			return path[i+1:]
		}
		return path
	}
	return q.addImport(path)
}

func (q *qualifier) qual(p *types.Package) string {
	if p == q.pk.Types {
		return ""
	}
	n := q.nameOf(p.Path())
	if n == "" {
		q.failed = true
		return p.Name()
	}
	if q.used == nil {
		q.used = map[string]string{}
	}
	q.used[n] = p.Path()
	return n
}

// rewriteReturns replaces the return statements of the function body itself
// (not those of nested function literals).
func rewriteReturns(b *ast.BlockStmt, repl func(*ast.ReturnStmt) []ast.Stmt) {
	var list func(l []ast.Stmt) []ast.Stmt
	var stmt func(s ast.Stmt)
	stmt = func(s ast.Stmt) {
		switch x := s.(type) {
		case *ast.BlockStmt:
			x.List = list(x.List)
		case *ast.IfStmt:
			x.Body.List = list(x.Body.List)
			if x.Else != nil {
				if r, ok := x.Else.(*ast.ReturnStmt); ok {
					x.Else = &ast.BlockStmt{List: repl(r)}
				} else {
					stmt(x.Else)
				}
			}
		case *ast.ForStmt:
			x.Body.List = list(x.Body.List)
		case *ast.RangeStmt:
			x.Body.List = list(x.Body.List)
		case *ast.SwitchStmt:
			for _, cc := range x.Body.List {
				cl := cc.(*ast.CaseClause)
				cl.Body = list(cl.Body)
			}
		case *ast.TypeSwitchStmt:
			for _, cc := range x.Body.List {
				cl := cc.(*ast.CaseClause)
				cl.Body = list(cl.Body)
			}
		case *ast.SelectStmt:
			for _, cc := range x.Body.List {
				cl := cc.(*ast.CommClause)
				cl.Body = list(cl.Body)
			}
		case *ast.LabeledStmt:
			stmt(x.Stmt)
		}
	}
	list = func(l []ast.Stmt) []ast.Stmt {
		var out []ast.Stmt
		for _, s := range l {
			if r, ok := s.(*ast.ReturnStmt); ok {
				out = append(out, &ast.BlockStmt{List: repl(r)})
				continue
			}
			stmt(s)
			out = append(out, s)
		}
		return out
	}
	b.List = list(b.List)
}

// cloneNode deep-copies an AST subtree (positions kept); onIdent is called for
// every copied identifier with its original.
func cloneNode(n ast.Node, onIdent func(orig, cp *ast.Ident)) ast.Node {
	v := cloneValue(reflect.ValueOf(n), onIdent)
	return v.Interface().(ast.Node)
}

func cloneValue(v reflect.Value, onIdent func(orig, cp *ast.Ident)) reflect.Value {
	switch v.Kind() {
	case reflect.Ptr:
		if v.IsNil() {
			return v
		}
		// objects and scopes are not copied
		switch v.Interface().(type) {
		case *ast.Object, *ast.Scope:
			return reflect.Zero(v.Type())
		}
		cp := reflect.New(v.Elem().Type())
		cp.Elem().Set(cloneValue(v.Elem(), onIdent))
		if id, ok := v.Interface().(*ast.Ident); ok {
			onIdent(id, cp.Interface().(*ast.Ident))
		}
		return cp
	case reflect.Interface:
		if v.IsNil() {
			return v
		}
		cp := cloneValue(v.Elem(), onIdent)
		out := reflect.New(v.Type()).Elem()
		out.Set(cp)
		return out
	case reflect.Slice:
		if v.IsNil() {
			return v
		}
		out := reflect.MakeSlice(v.Type(), v.Len(), v.Len())
		for i := 0; i < v.Len(); i++ {
			out.Index(i).Set(cloneValue(v.Index(i), onIdent))
		}
		return out
	case reflect.Struct:
		out := reflect.New(v.Type()).Elem()
		for i := 0; i < v.NumField(); i++ {
			if !out.Field(i).CanSet() {
				continue
			}
			out.Field(i).Set(cloneValue(v.Field(i), onIdent))
		}
		return out
	}
	return v
}

// parseTypeExpr turns a printed type into an expression without positions.
func parseTypeExpr(s string) (ast.Expr, bool) {
	e, err := parser.ParseExpr(s)
	if err != nil {
		return nil, false
	}
	clearPos(reflect.ValueOf(e))
	return e, true
}

var posType = reflect.TypeOf(token.NoPos)

func clearPos(v reflect.Value) {
	switch v.Kind() {
	case reflect.Ptr, reflect.Interface:
		if !v.IsNil() {
			clearPos(v.Elem())
		}
	case reflect.Slice:
		for i := 0; i < v.Len(); i++ {
			clearPos(v.Index(i))
		}
	case reflect.Struct:
		for i := 0; i < v.NumField(); i++ {
			f := v.Field(i)
			if f.Type() == posType && f.CanSet() {
				f.SetInt(0)
				continue
			}
			clearPos(f)
		}
	}
}

func exprString(e ast.Expr) string {
	var buf bytes.Buffer
	printer.Fprint(&buf, token.NewFileSet(), e)
	return buf.String()
}

func pkgOfFile(pkgs []*packages.Package, f *ast.File) *packages.Package {
	for _, pk := range pkgs {
		for _, g := range pk.Syntax {
			if g == f {
				return pk
			}
		}
	}
	return nil
}

// pruneImports drops imports whose name no longer occurs in the file (all
// users were moved to another file or dropped).
func pruneImports(f *ast.File, pk *packages.Package) {
	used := map[string]bool{}
	ast.Inspect(f, func(n ast.Node) bool {
		if _, isImp := n.(*ast.ImportSpec); isImp {
			return false
		}
		if id, ok := n.(*ast.Ident); ok {
			used[id.Name] = true
		}
		return true
	})
	nameOf := func(imp *ast.ImportSpec) string {
		if imp.Name != nil {
			return imp.Name.Name
		}
		path := strings.Trim(imp.Path.Value, "\"")
		if pk != nil {
			if ip := pk.Imports[path]; ip != nil {
				return ip.Name
			}
		}
		if i := strings.LastIndex(path, "/"); i >= 0 {
			return path[i+1:]
		}
		return path
	}
	keep := func(imp *ast.ImportSpec) bool {
		n := nameOf(imp)
		return n == "_" || n == "." || used[n]
	}
	var imports []*ast.ImportSpec
	for _, imp := range f.Imports {
		if keep(imp) {
			imports = append(imports, imp)
		}
	}
	f.Imports = imports
	var decls []ast.Decl
	for _, d := range f.Decls {
		gd, ok := d.(*ast.GenDecl)
		if !ok || gd.Tok != token.IMPORT {
			decls = append(decls, d)
			continue
		}
		var specs []ast.Spec
		for _, sp := range gd.Specs {
			if keep(sp.(*ast.ImportSpec)) {
				specs = append(specs, sp)
			}
		}
		if len(specs) > 0 {
			gd.Specs = specs
			decls = append(decls, gd)
		}
	}
	f.Decls = decls
}
