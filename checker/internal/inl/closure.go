package inl

import (
	"go/ast"
	"go/token"
	"go/types"
	"sort"

	"golang.org/x/tools/go/packages"
)

// ClosureKey is the baseline key of a local closure variable: the package and
// the variable's name (the enclosing function is left out, so that moving or
// renaming the function does not make the closure new).
func ClosureKey(pkgPath, name string) string { return pkgPath + ".$" + name }

// LocalClosures lists the baseline keys of the local closure variables of the
// packages (`v := func(..) {..}` inside a function).
func LocalClosures(pkgs []*packages.Package, excluded func(string) bool) []string {
	seen := map[string]bool{}
	for _, pk := range pkgs {
		for _, f := range pk.Syntax {
			if excluded(pk.Fset.Position(f.Pos()).Filename) {
				continue
			}
			ast.Inspect(f, func(n ast.Node) bool {
				as, ok := n.(*ast.AssignStmt)
				if !ok || as.Tok != token.DEFINE || len(as.Lhs) != 1 || len(as.Rhs) != 1 {
					return true
				}
				id, ok := as.Lhs[0].(*ast.Ident)
				if _, isLit := as.Rhs[0].(*ast.FuncLit); ok && isLit && id.Name != "_" {
					seen[ClosureKey(pk.PkgPath, id.Name)] = true
				}
				return true
			})
		}
	}
	var out []string
	for k := range seen {
		out = append(out, k)
	}
	sort.Strings(out)
	return out
}

// findClosures records the local closure variables that are new relative to
// the pinned tree and only ever called: `v := func(..) {..}` with every use of
// v the function of a call. Extracting part of a function into such a closure
// is the local form of "extract helper"; calls of these closures are inlined
// like calls of new functions, and a definition all of whose calls were
// inlined is dropped.
func (in *inliner) findClosures(pkgs []*packages.Package, excluded func(string) bool) {
	for _, pk := range pkgs {
		for _, f := range pk.Syntax {
			if excluded(in.fset.Position(f.Pos()).Filename) {
				continue
			}
			for _, d := range f.Decls {
				fd, ok := d.(*ast.FuncDecl)
				if !ok || fd.Body == nil {
					continue
				}
				// candidates
				cands := map[*types.Var]*callee{}
				ast.Inspect(fd.Body, func(n ast.Node) bool {
					as, ok := n.(*ast.AssignStmt)
					if !ok || as.Tok != token.DEFINE || len(as.Lhs) != 1 || len(as.Rhs) != 1 {
						return true
					}
					id, ok := as.Lhs[0].(*ast.Ident)
					lit, isLit := as.Rhs[0].(*ast.FuncLit)
					if !ok || !isLit || id.Name == "_" || InBaseline(ClosureKey(pk.PkgPath, id.Name)) || in.synthDefs[as] {
						return true
					}
					v, _ := pk.TypesInfo.Defs[id].(*types.Var)
					sig, _ := pk.TypesInfo.TypeOf(lit).(*types.Signature)
					if v == nil || sig == nil {
						return true
					}
					name := fd.Name.Name + "$" + id.Name
					decl := &ast.FuncDecl{Name: &ast.Ident{NamePos: lit.Pos(), Name: name}, Type: lit.Type, Body: lit.Body}
					obj := types.NewFunc(lit.Pos(), pk.Types, name, sig)
					c := &callee{decl: decl, obj: obj, file: f, pkg: pk, lit: lit, def: as}
					c.reason = eligibility(decl, obj)
					cands[v] = c
					return true
				})
				if len(cands) == 0 {
					continue
				}
				// every use must be the function of a call
				callFun := map[*ast.Ident]bool{}
				ast.Inspect(fd.Body, func(n ast.Node) bool {
					if call, ok := n.(*ast.CallExpr); ok {
						if id, ok := call.Fun.(*ast.Ident); ok {
							callFun[id] = true
						}
					}
					return true
				})
				// go f() / defer f() keep the closure
				ast.Inspect(fd.Body, func(n ast.Node) bool {
					var call *ast.CallExpr
					switch x := n.(type) {
					case *ast.GoStmt:
						call = x.Call
					case *ast.DeferStmt:
						call = x.Call
					}
					if call != nil {
						if id, ok := call.Fun.(*ast.Ident); ok {
							delete(callFun, id)
						}
					}
					return true
				})
				ast.Inspect(fd.Body, func(n ast.Node) bool {
					id, ok := n.(*ast.Ident)
					if !ok {
						return true
					}
					v, _ := pk.TypesInfo.Uses[id].(*types.Var)
					c := cands[v]
					if c == nil {
						return true
					}
					if !callFun[id] {
						c.reason = "used other than by calling it"
					}
					// a call inside the literal itself is recursion
					if id.Pos() >= c.lit.Pos() && id.Pos() < c.lit.End() && id.Pos() != c.lit.Pos() {
						c.reason = "recursive"
					}
					c.uses++
					return true
				})
				for v, c := range cands {
					if c.reason != "" || c.uses == 0 {
						continue
					}
					in.closures[v] = c
					in.res.New = append(in.res.New, FuncName(pk.PkgPath, c.decl))
				}
			}
		}
	}
}

// dropClosureDefs removes, from the statement lists under body, the defining
// statements of closures all of whose calls were inlined.
func (in *inliner) dropClosureDefs(body *ast.BlockStmt) {
	drop := map[ast.Stmt]bool{}
	for _, c := range in.closures {
		if c.reason == "" && c.uses > 0 && c.sites == c.uses {
			drop[c.def] = true
		}
	}
	if len(drop) == 0 {
		return
	}
	filter := func(list []ast.Stmt) []ast.Stmt {
		var out []ast.Stmt
		for _, s := range list {
			if !drop[s] {
				out = append(out, s)
			}
		}
		return out
	}
	ast.Inspect(body, func(n ast.Node) bool {
		switch x := n.(type) {
		case *ast.BlockStmt:
			x.List = filter(x.List)
		case *ast.CaseClause:
			x.Body = filter(x.Body)
		case *ast.CommClause:
			x.Body = filter(x.Body)
		}
		return true
	})
}
