package inl

import (
	"fmt"
	"go/ast"
	"go/token"
	"go/types"

	"golang.org/x/tools/go/packages"
)

// normalizeLibraryLoops spells the loops the standard library offers since
// Go 1.21/1.23 the way the pinned tree spells them, so that the loop rules see
// the loop itself and not a call into the library or a yield closure:
//
//	for k, v := range slices.All(s) / maps.All(m)   ->  for k, v := range s / m
//	for v := range slices.Values(s) / maps.Values(m) ->  for _, v := range s / m
//	for k := range maps.Keys(m)                      ->  for k := range m
//	for i, v := range slices.Backward(s)             ->  for i := len(s)-1; i >= 0; i-- { v := s[i]; .. }
//	slices.ContainsFunc(s, f), slices.Contains(s, x),
//	slices.IndexFunc(s, f), slices.Index(s, x)       ->  the search loop, where the call is the
//	    whole (or negated) condition of an if, the right-hand side of an
//	    assignment, or the operand of a return
//
// Each is the documented meaning of the library function. Operands that the
// loop would evaluate again are hoisted into fresh variables first.
func (in *inliner) normalizeLibraryLoops(pkgs []*packages.Package, excluded func(string) bool) {
	for _, pk := range pkgs {
		for _, f := range pk.Syntax {
			if excluded(in.fset.Position(f.Pos()).Filename) {
				continue
			}
			n := &normCtx{in: in, pkg: pk, file: f}
			eachList(f, n.iteratorRange)
			eachList(f, n.searchCall)
		}
	}
}

func unlabel(s ast.Stmt) (ast.Stmt, []*ast.LabeledStmt) {
	var labels []*ast.LabeledStmt
	for {
		l, ok := s.(*ast.LabeledStmt)
		if !ok {
			return s, labels
		}
		labels = append(labels, l)
		s = l.Stmt
	}
}

func relabelStmt(labels []*ast.LabeledStmt, s ast.Stmt) ast.Stmt {
	if len(labels) == 0 {
		return s
	}
	labels[len(labels)-1].Stmt = s
	return labels[0]
}

func isBlank(e ast.Expr) bool {
	id, ok := e.(*ast.Ident)
	return ok && id.Name == "_"
}

func (n *normCtx) note(pos token.Pos, what string) {
	n.in.dirty[n.file] = true
	n.in.res.Normalized = append(n.in.res.Normalized, fmt.Sprintf("%s at %s", what, n.in.fset.Position(pos)))
}

// iteratorRange rewrites a range over a library iterator.
func (n *normCtx) iteratorRange(s ast.Stmt) []ast.Stmt {
	inner, labels := unlabel(s)
	rs, ok := inner.(*ast.RangeStmt)
	if !ok {
		return []ast.Stmt{s}
	}
	x := rs.X
	for {
		p, ok := x.(*ast.ParenExpr)
		if !ok {
			break
		}
		x = p.X
	}
	call, ok := x.(*ast.CallExpr)
	if !ok || len(call.Args) != 1 || call.Ellipsis.IsValid() {
		return []ast.Stmt{s}
	}
	name := n.stdFunc(call)
	arg := call.Args[0]
	switch name {
	case "slices.All", "maps.All":
		rs.X = arg
	case "maps.Keys":
		if rs.Value != nil {
			return []ast.Stmt{s}
		}
		rs.X = arg
	case "slices.Values", "maps.Values":
		if rs.Value != nil {
			return []ast.Stmt{s}
		}
		if rs.Key != nil {
			rs.Value = rs.Key
			rs.Key = &ast.Ident{NamePos: rs.Key.Pos(), Name: "_"}
		}
		rs.X = arg
	case "slices.Backward":
		return n.backward(s, rs, labels, arg)
	default:
		return []ast.Stmt{s}
	}
	n.note(rs.For, "range over "+name+" spelled as a range over its operand")
	return []ast.Stmt{s}
}

// backward: for i, v := range slices.Backward(s).
func (n *normCtx) backward(s ast.Stmt, rs *ast.RangeStmt, labels []*ast.LabeledStmt, arg ast.Expr) []ast.Stmt {
	pos := rs.For
	if rs.Tok == token.ASSIGN {
		return []ast.Stmt{s}
	}
	var keyID, valID *ast.Ident
	if rs.Key != nil && !isBlank(rs.Key) {
		id, ok := rs.Key.(*ast.Ident)
		if !ok {
			return []ast.Stmt{s}
		}
		o := n.objOf(id)
		if o == nil || n.assigned(rs.Body, o) {
			return []ast.Stmt{s}
		}
		keyID = id
	}
	if rs.Value != nil && !isBlank(rs.Value) {
		id, ok := rs.Value.(*ast.Ident)
		if !ok {
			return []ast.Stmt{s}
		}
		valID = id
	}
	var pre []ast.Stmt
	// the slice and the index one past the first element visited
	var sliceOf func() ast.Expr
	var highOf func() ast.Expr
	if se, ok := arg.(*ast.SliceExpr); ok && se.Low == nil && se.High != nil && !se.Slice3 {
		if t, ok := n.pkg.TypesInfo.TypeOf(se.X).Underlying().(*types.Slice); ok && t != nil {
			// x[:h]: indices h-1 .. 0 of x itself
			sx, p1 := n.hoist(pos, "bs", se.X, rs.Body)
			hx, p2 := n.hoist(pos, "bh", se.High, rs.Body)
			pre = append(pre, p1...)
			pre = append(pre, p2...)
			// the slice expression itself is still evaluated (bounds check)
			pre = append(pre, &ast.AssignStmt{Lhs: []ast.Expr{&ast.Ident{NamePos: pos, Name: "_"}}, TokPos: pos, Tok: token.ASSIGN,
				Rhs: []ast.Expr{&ast.SliceExpr{X: sx(), Lbrack: pos, High: hx(), Rbrack: pos}}})
			sliceOf, highOf = sx, hx
		}
	}
	if sliceOf == nil {
		sx, p1 := n.hoist(pos, "bs", arg, rs.Body)
		pre = append(pre, p1...)
		sliceOf = sx
		highOf = func() ast.Expr {
			return &ast.CallExpr{Fun: &ast.Ident{NamePos: pos, Name: "len"}, Lparen: pos, Args: []ast.Expr{sx()}, Rparen: pos}
		}
		if o := n.pkg.Types.Scope().Lookup("len"); o != nil {
			return []ast.Stmt{s}
		}
	}
	var key *ast.Ident
	var keyUse func() ast.Expr
	if keyID != nil {
		o := n.objOf(keyID)
		key = keyID
		keyUse = func() ast.Expr {
			u := &ast.Ident{NamePos: pos, Name: keyID.Name}
			n.pkg.TypesInfo.Uses[u] = o
			return u
		}
	} else {
		id, v := n.newVar(pos, "bi", types.Typ[types.Int])
		key = id
		keyUse = func() ast.Expr { return n.use(pos, v) }
	}
	one := func() ast.Expr { return &ast.BasicLit{ValuePos: pos, Kind: token.INT, Value: "1"} }
	body := rs.Body
	if valID != nil {
		bind := &ast.AssignStmt{Lhs: []ast.Expr{valID}, TokPos: pos, Tok: token.DEFINE,
			Rhs: []ast.Expr{&ast.IndexExpr{X: sliceOf(), Lbrack: pos, Index: keyUse(), Rbrack: pos}}}
		// the element variable may be unused only as `_`, so it is used
		body.List = append([]ast.Stmt{bind}, body.List...)
	}
	loop := &ast.ForStmt{
		For:  pos,
		Init: &ast.AssignStmt{Lhs: []ast.Expr{key}, TokPos: pos, Tok: token.DEFINE, Rhs: []ast.Expr{&ast.BinaryExpr{X: highOf(), OpPos: pos, Op: token.SUB, Y: one()}}},
		Cond: &ast.BinaryExpr{X: keyUse(), OpPos: pos, Op: token.GEQ, Y: &ast.BasicLit{ValuePos: pos, Kind: token.INT, Value: "0"}},
		Post: &ast.IncDecStmt{X: keyUse(), TokPos: pos, Tok: token.DEC},
		Body: body,
	}
	n.note(pos, "range over slices.Backward spelled as a descending three-clause loop")
	return append(pre, relabelStmt(labels, loop))
}

// searchCall rewrites a statement whose value comes from one of the library's
// linear searches.
func (n *normCtx) searchCall(s ast.Stmt) []ast.Stmt {
	if _, labels := unlabel(s); len(labels) > 0 {
		return []ast.Stmt{s}
	}
	strip := func(e ast.Expr) (*ast.CallExpr, *ast.Expr) {
		p := &e
		neg := false
		for {
			switch x := (*p).(type) {
			case *ast.ParenExpr:
				p = &x.X
				continue
			case *ast.UnaryExpr:
				if x.Op == token.NOT && !neg {
					neg = true
					p = &x.X
					continue
				}
			}
			break
		}
		c, _ := (*p).(*ast.CallExpr)
		return c, p
	}
	var slot *ast.Expr // where the call sits
	var call *ast.CallExpr
	var init ast.Stmt
	switch x := s.(type) {
	case *ast.IfStmt:
		// the expression is rebuilt below: find the call's slot inside x.Cond
		c, _ := strip(x.Cond)
		if c == nil {
			return []ast.Stmt{s}
		}
		call = c
		slot = slotOf(&x.Cond, c)
		init = x.Init
	case *ast.AssignStmt:
		if len(x.Rhs) != 1 || len(x.Lhs) != 1 || (x.Tok != token.ASSIGN && x.Tok != token.DEFINE) {
			return []ast.Stmt{s}
		}
		c, _ := strip(x.Rhs[0])
		if c == nil {
			return []ast.Stmt{s}
		}
		call = c
		slot = slotOf(&x.Rhs[0], c)
	case *ast.ReturnStmt:
		if len(x.Results) != 1 {
			return []ast.Stmt{s}
		}
		c, _ := strip(x.Results[0])
		if c == nil {
			return []ast.Stmt{s}
		}
		call = c
		slot = slotOf(&x.Results[0], c)
	default:
		return []ast.Stmt{s}
	}
	if slot == nil || len(call.Args) != 2 || call.Ellipsis.IsValid() {
		return []ast.Stmt{s}
	}
	name := n.stdFunc(call)
	var byFunc, index bool
	switch name {
	case "slices.ContainsFunc":
		byFunc = true
	case "slices.Contains":
	case "slices.IndexFunc":
		byFunc, index = true, true
	case "slices.Index":
		index = true
	default:
		return []ast.Stmt{s}
	}
	pos := call.Pos()
	st, ok := n.pkg.TypesInfo.TypeOf(call.Args[0]).Underlying().(*types.Slice)
	if !ok {
		return []ast.Stmt{s}
	}
	var pre []ast.Stmt
	if init != nil {
		pre = append(pre, init)
		s.(*ast.IfStmt).Init = nil
	}
	// operands, in order
	sl, p1 := n.hoist(pos, "ss", call.Args[0], nil)
	pre = append(pre, p1...)
	var test func(elem ast.Expr) ast.Expr
	if byFunc {
		f := call.Args[1]
		if lit, ok := f.(*ast.FuncLit); ok {
			// a literal becomes a local closure (which the inliner may fold
			// into the loop)
			sig := n.pkg.TypesInfo.TypeOf(lit)
			id, v := n.newVar(pos, "sf", sig)
			pre = append(pre, &ast.AssignStmt{Lhs: []ast.Expr{id}, TokPos: pos, Tok: token.DEFINE, Rhs: []ast.Expr{lit}})
			f = n.use(pos, v)
		} else if _, ok := f.(*ast.Ident); !ok {
			fx, p2 := n.hoist(pos, "sf", f, nil)
			pre = append(pre, p2...)
			f = fx()
		}
		test = func(elem ast.Expr) ast.Expr {
			return &ast.CallExpr{Fun: f, Lparen: pos, Args: []ast.Expr{elem}, Rparen: pos}
		}
	} else {
		vx, p2 := n.hoist(pos, "sv", call.Args[1], nil)
		pre = append(pre, p2...)
		test = func(elem ast.Expr) ast.Expr {
			return &ast.BinaryExpr{X: elem, OpPos: pos, Op: token.EQL, Y: vx()}
		}
	}
	// result variable and loop
	var resT types.Type = types.Typ[types.Bool]
	var zero, hit func() ast.Expr
	elemID, elemV := n.newVar(pos, "se", st.Elem())
	var keyExpr ast.Expr = &ast.Ident{NamePos: pos, Name: "_"}
	if index {
		resT = types.Typ[types.Int]
		kid, kv := n.newVar(pos, "si", types.Typ[types.Int])
		keyExpr = kid
		zero = func() ast.Expr {
			return &ast.UnaryExpr{OpPos: pos, Op: token.SUB, X: &ast.BasicLit{ValuePos: pos, Kind: token.INT, Value: "1"}}
		}
		hit = func() ast.Expr { return n.use(pos, kv) }
	} else {
		zero = func() ast.Expr { return &ast.Ident{NamePos: pos, Name: "false"} }
		hit = func() ast.Expr { return &ast.Ident{NamePos: pos, Name: "true"} }
		if n.pkg.Types.Scope().Lookup("true") != nil || n.pkg.Types.Scope().Lookup("false") != nil {
			return []ast.Stmt{s}
		}
	}
	resID, resV := n.newVar(pos, "sr", resT)
	pre = append(pre, &ast.AssignStmt{Lhs: []ast.Expr{resID}, TokPos: pos, Tok: token.DEFINE, Rhs: []ast.Expr{zero()}})
	loop := &ast.RangeStmt{
		For: pos, Key: keyExpr, Value: elemID, TokPos: pos, Tok: token.DEFINE, Range: pos, X: sl(),
		Body: &ast.BlockStmt{Lbrace: pos, List: []ast.Stmt{
			&ast.IfStmt{If: pos, Cond: test(n.use(pos, elemV)), Body: &ast.BlockStmt{Lbrace: pos, List: []ast.Stmt{
				&ast.AssignStmt{Lhs: []ast.Expr{n.use(pos, resV)}, TokPos: pos, Tok: token.ASSIGN, Rhs: []ast.Expr{hit()}},
				&ast.BranchStmt{TokPos: pos, Tok: token.BREAK},
			}, Rbrace: pos}},
		}, Rbrace: pos},
	}
	pre = append(pre, loop)
	*slot = n.use(pos, resV)
	n.note(pos, name+" spelled as the search loop it stands for")
	if _, isIf := s.(*ast.IfStmt); isIf {
		// keep the fresh variables (and a former init statement) scoped to the
		// statement
		return []ast.Stmt{&ast.BlockStmt{Lbrace: pos, List: append(pre, s), Rbrace: s.End()}}
	}
	return append(pre, s)
}

// slotOf finds the place of call under *e (through parentheses and negations).
func slotOf(e *ast.Expr, call *ast.CallExpr) *ast.Expr {
	switch x := (*e).(type) {
	case *ast.CallExpr:
		if x == call {
			return e
		}
	case *ast.ParenExpr:
		return slotOf(&x.X, call)
	case *ast.UnaryExpr:
		return slotOf(&x.X, call)
	}
	return nil
}
