package inl

import (
	"fmt"
	"go/ast"
	"go/token"
	"go/types"

	"golang.org/x/tools/go/packages"
)

// normalizeLiteralRange writes a loop over a short literal list,
//
//	for _, v := range []T{a, b, c} { body }
//
// as the sequence it stands for: the elements are evaluated into fresh
// variables first (as the literal is evaluated before the loop starts), then
// the body is written once per element with v bound to it. Only loops whose
// body neither breaks out of nor continues the loop, and that carry no label,
// are written out (at most six elements). The pinned tree has no such loop; a
// later edit that folds a few consecutive, similar statements into one is then
// seen as the statements it folded.
func (in *inliner) normalizeLiteralRange(pkgs []*packages.Package, excluded func(string) bool) {
	for _, pk := range pkgs {
		for _, f := range pk.Syntax {
			if excluded(in.fset.Position(f.Pos()).Filename) {
				continue
			}
			n := &normCtx{in: in, pkg: pk, file: f}
			eachList(f, n.literalRange)
		}
	}
}

func (n *normCtx) literalRange(s ast.Stmt) []ast.Stmt {
	keep := []ast.Stmt{s}
	rs, ok := s.(*ast.RangeStmt)
	if !ok || rs.Tok != token.DEFINE || (rs.Key != nil && !isBlank(rs.Key)) {
		return keep
	}
	lit, ok := rs.X.(*ast.CompositeLit)
	var detach func()
	if id, isId := rs.X.(*ast.Ident); isId && !ok {
		lit, detach = n.literalOfVar(id)
		ok = lit != nil
	}
	if !ok || len(lit.Elts) == 0 || len(lit.Elts) > 6 {
		return keep
	}
	at, ok := lit.Type.(*ast.ArrayType)
	if !ok || at.Elt == nil {
		return keep
	}
	for _, e := range lit.Elts {
		if _, isKV := e.(*ast.KeyValueExpr); isKV {
			return keep
		}
	}
	// no way out of, or round, the loop other than falling off the body / return
	bad := false
	var scan func(node ast.Node, inLoop, inSwitch bool)
	scan = func(node ast.Node, inLoop, inSwitch bool) {
		ast.Inspect(node, func(x ast.Node) bool {
			if bad || x == nil {
				return false
			}
			switch y := x.(type) {
			case *ast.FuncLit:
				return false
			case *ast.LabeledStmt:
				bad = true
			case *ast.BranchStmt:
				switch y.Tok {
				case token.GOTO, token.FALLTHROUGH:
					if y.Tok == token.GOTO {
						bad = true
					}
				case token.BREAK:
					// (a labelled branch leaves for a statement outside the
					// loop, which carries no label itself: it is a way out
					// like a return)
					if y.Label == nil && !(inLoop || inSwitch) {
						bad = true
					}
				case token.CONTINUE:
					if y.Label == nil && !inLoop {
						bad = true
					}
				}
			case *ast.ForStmt:
				if x != node {
					scan(y.Body, true, false)
					return false
				}
			case *ast.RangeStmt:
				if x != node {
					scan(y.Body, true, false)
					return false
				}
			case *ast.SwitchStmt:
				if x != node {
					scan(y.Body, inLoop, true)
					return false
				}
			case *ast.TypeSwitchStmt:
				if x != node {
					scan(y.Body, inLoop, true)
					return false
				}
			case *ast.SelectStmt:
				if x != node {
					scan(y.Body, inLoop, true)
					return false
				}
			}
			return true
		})
	}
	scan(rs.Body, false, false)
	if bad {
		return keep
	}
	pos := rs.Pos()
	record := func(orig, cp *ast.Ident) { n.in.origOf[cp] = orig }
	var out []ast.Stmt
	var tmps []string
	if detach != nil {
		detach()
	}
	direct := map[int]ast.Expr{}
	for i, e := range lit.Elts {
		if fl, isFn := e.(*ast.FuncLit); isFn && rs.Value != nil && !isBlank(rs.Value) {
			// a function literal is bound to the loop variable directly (it
			// has no evaluation to order): the body then calls a local
			// closure, which the next round looks into
			direct[i] = fl
			tmps = append(tmps, "")
			continue
		}
		if inner, isLit := e.(*ast.CompositeLit); isLit && inner.Type == nil {
			inner.Type = cloneNode(at.Elt, record).(ast.Expr)
		}
		n.in.nfresh++
		tmp := fmt.Sprintf("inlE%d_%d", n.in.nfresh, i)
		tmps = append(tmps, tmp)
		out = append(out, &ast.DeclStmt{Decl: &ast.GenDecl{TokPos: pos, Tok: token.VAR, Specs: []ast.Spec{&ast.ValueSpec{
			Names: []*ast.Ident{{NamePos: pos, Name: tmp}}, Type: cloneNode(at.Elt, record).(ast.Expr), Values: []ast.Expr{e}}}}})
		out = append(out, &ast.AssignStmt{Lhs: []ast.Expr{&ast.Ident{NamePos: pos, Name: "_"}}, TokPos: pos, Tok: token.ASSIGN, Rhs: []ast.Expr{&ast.Ident{NamePos: pos, Name: tmp}}})
	}
	for i, tmp := range tmps {
		body := rs.Body
		var val ast.Expr = rs.Value
		if i > 0 {
			body = cloneNode(rs.Body, record).(*ast.BlockStmt)
			if val != nil {
				val = cloneNode(rs.Value, record).(ast.Expr)
			}
		}
		var list []ast.Stmt
		if val != nil && !isBlank(val) {
			var rhs ast.Expr = &ast.Ident{NamePos: pos, Name: tmp}
			if d := direct[i]; d != nil {
				rhs = d
			}
			def := &ast.AssignStmt{Lhs: []ast.Expr{val}, TokPos: pos, Tok: token.DEFINE, Rhs: []ast.Expr{rhs}}
			list = append(list, def)
			if direct[i] != nil {
				// (looked at as a local closure in the next round, when the
				// copies of the loop variable are variables of their own)
				n.in.synthDefs[def] = true
			} else {
				list = append(list, &ast.AssignStmt{Lhs: []ast.Expr{&ast.Ident{NamePos: pos, Name: "_"}}, TokPos: pos, Tok: token.ASSIGN, Rhs: []ast.Expr{cloneNode(val, record).(ast.Expr)}})
			}
		}
		list = append(list, body.List...)
		out = append(out, &ast.BlockStmt{Lbrace: pos, List: list, Rbrace: rs.End()})
	}
	n.in.dirty[n.file] = true
	n.in.res.Normalized = append(n.in.res.Normalized, fmt.Sprintf("loop over a %d-element literal at %s written out", len(tmps), n.in.fset.Position(pos)))
	return []ast.Stmt{&ast.BlockStmt{Lbrace: pos, List: out, Rbrace: rs.End()}}
}

// literalOfVar: id names a local slice variable that is given a short literal
// where it is declared (directly or as a copy of such a variable), is never
// assigned again, whose address is not taken and that is used for nothing but
// this loop (and `_ = v`): the literal, and a function that takes it out of
// the declaration (the variable is left nil). Only literals whose elements
// have no evaluation to order (function literals, named constants, names of
// locals, basic literals) qualify, since their evaluation moves to the loop.
func (n *normCtx) literalOfVar(id *ast.Ident) (*ast.CompositeLit, func()) {
	info := n.pkg.TypesInfo
	resolve := func(x *ast.Ident) types.Object {
		o := x
		for n.in.origOf[o] != nil {
			o = n.in.origOf[o]
		}
		if obj := info.Uses[o]; obj != nil {
			return obj
		}
		return info.Defs[o]
	}
	type vinfo struct {
		init    *ast.Expr
		other   int
		ranges  int
		aliases int
	}
	vars := map[types.Object]*vinfo{}
	get := func(o types.Object) *vinfo {
		if vars[o] == nil {
			vars[o] = &vinfo{}
		}
		return vars[o]
	}
	// the enclosing function declaration
	var body ast.Node
	for _, d := range n.file.Decls {
		if fd, ok := d.(*ast.FuncDecl); ok && fd.Body != nil && fd.Body.Pos() <= id.Pos() && id.End() <= fd.Body.End() {
			body = fd.Body
		}
	}
	if body == nil {
		// positions of moved code are unreliable: search by identity
		for _, d := range n.file.Decls {
			fd, ok := d.(*ast.FuncDecl)
			if !ok || fd.Body == nil {
				continue
			}
			ast.Inspect(fd.Body, func(x ast.Node) bool {
				if x == ast.Node(id) {
					body = fd.Body
				}
				return body == nil
			})
		}
	}
	if body == nil {
		return nil, nil
	}
	var stack []ast.Node
	ast.Inspect(body, func(x ast.Node) bool {
		if x == nil {
			stack = stack[:len(stack)-1]
			return true
		}
		stack = append(stack, x)
		switch y := x.(type) {
		case *ast.ValueSpec:
			if len(y.Names) == 1 && len(y.Values) == 1 && y.Names[0].Name != "_" {
				if o := resolve(y.Names[0]); o != nil {
					get(o).init = &y.Values[0]
				}
			}
		case *ast.AssignStmt:
			for i, l := range y.Lhs {
				li, ok := l.(*ast.Ident)
				if !ok || li.Name == "_" {
					continue
				}
				o := resolve(li)
				if o == nil {
					continue
				}
				if y.Tok == token.DEFINE && len(y.Lhs) == 1 && len(y.Rhs) == 1 && info.Defs[li] != nil {
					get(o).init = &y.Rhs[i]
				} else {
					get(o).other++
				}
			}
		case *ast.IncDecStmt:
			if li, ok := y.X.(*ast.Ident); ok {
				if o := resolve(li); o != nil {
					get(o).other++
				}
			}
		case *ast.Ident:
			o := resolve(y)
			if _, isVar := o.(*types.Var); !isVar || len(stack) < 2 {
				return true
			}
			switch p := stack[len(stack)-2].(type) {
			case *ast.ValueSpec:
				for _, nm := range p.Names {
					if nm == y {
						return true
					}
				}
				if len(p.Values) == 1 && p.Values[0] == ast.Expr(y) && len(p.Names) == 1 {
					get(o).aliases++
					return true
				}
			case *ast.AssignStmt:
				for _, l := range p.Lhs {
					if l == ast.Expr(y) {
						return true
					}
				}
				if len(p.Rhs) == 1 && p.Rhs[0] == ast.Expr(y) && len(p.Lhs) == 1 {
					if isBlank(p.Lhs[0]) {
						return true
					}
					if p.Tok == token.DEFINE {
						get(o).aliases++
						return true
					}
				}
			case *ast.RangeStmt:
				if p.X == ast.Expr(y) {
					get(o).ranges++
					return true
				}
			}
			get(o).other++
		}
		return true
	})
	o := resolve(id)
	for depth := 0; o != nil && depth < 4; depth++ {
		vi := vars[o]
		if vi == nil || vi.init == nil || vi.other != 0 {
			return nil, nil
		}
		if depth == 0 && (vi.ranges != 1 || vi.aliases != 0) {
			return nil, nil
		}
		if depth > 0 && (vi.ranges != 0 || vi.aliases != 1) {
			return nil, nil
		}
		switch e := (*vi.init).(type) {
		case *ast.Ident:
			o = resolve(e)
			continue
		case *ast.CompositeLit:
			at, ok := e.Type.(*ast.ArrayType)
			if !ok || at.Len != nil {
				return nil, nil
			}
			needAdjacent := false
			for _, el := range e.Elts {
				switch z := el.(type) {
				case *ast.FuncLit, *ast.BasicLit, *ast.Ident:
				case *ast.SelectorExpr:
					q, isId := z.X.(*ast.Ident)
					if _, isPkg := resolve(q).(*types.PkgName); !isId || !isPkg {
						needAdjacent = true
					}
				default:
					needAdjacent = true
				}
				// anything with a call, a receive or a function literal
				// inside is evaluated where it stands
				if _, isFn := el.(*ast.FuncLit); !isFn {
					bad := false
					ast.Inspect(el, func(m ast.Node) bool {
						switch y := m.(type) {
						case *ast.CallExpr:
							if tv, ok := info.Types[y.Fun]; !ok || !tv.IsType() {
								bad = true
							}
						case *ast.FuncLit:
							bad = true
						case *ast.UnaryExpr:
							if y.Op == token.ARROW {
								bad = true
							}
						}
						return !bad
					})
					if bad {
						return nil, nil
					}
				}
			}
			if needAdjacent && !n.nothingBetween(body, vi.init, id) {
				return nil, nil
			}
			slot := vi.init
			record := func(orig, cp *ast.Ident) { n.in.origOf[cp] = orig }
			return e, func() {
				*slot = &ast.CallExpr{Fun: &ast.ParenExpr{X: cloneNode(e.Type, record).(ast.Expr)}, Args: []ast.Expr{ast.NewIdent("nil")}}
			}
		default:
			return nil, nil
		}
	}
	return nil, nil
}

// nothingBetween: between the statement that holds the expression slot `from`
// and the range statement over `to` nothing is executed but declarations and
// copies of names (what the inliner writes in front of an inlined body), so
// that reading variables and fields at the loop instead of at the declaration
// reads the same values.
func (n *normCtx) nothingBetween(body ast.Node, from *ast.Expr, to *ast.Ident) bool {
	trivial := func(s ast.Stmt) bool {
		switch x := s.(type) {
		case *ast.DeclStmt:
			gd, ok := x.Decl.(*ast.GenDecl)
			if !ok {
				return false
			}
			for _, sp := range gd.Specs {
				if vs, isV := sp.(*ast.ValueSpec); isV {
					for _, v := range vs.Values {
						if _, isId := v.(*ast.Ident); !isId && &vs.Values[0] != from {
							if _, isLit := v.(*ast.CompositeLit); !isLit {
								return false
							}
						}
					}
				}
			}
			return true
		case *ast.AssignStmt:
			for _, r := range x.Rhs {
				if _, isId := r.(*ast.Ident); !isId {
					return false
				}
			}
			return true
		case *ast.EmptyStmt:
			return true
		}
		return false
	}
	// the chain of statement lists from the body down to the range statement
	var path []ast.Node
	var stack []ast.Node
	var rangeStmt *ast.RangeStmt
	ast.Inspect(body, func(x ast.Node) bool {
		if x == nil {
			stack = stack[:len(stack)-1]
			return true
		}
		stack = append(stack, x)
		if rs, ok := x.(*ast.RangeStmt); ok && rs.X == ast.Expr(to) {
			rangeStmt = rs
			path = append([]ast.Node{}, stack...)
		}
		return rangeStmt == nil
	})
	if rangeStmt == nil {
		return false
	}
	holds := func(s ast.Stmt) bool {
		found := false
		ast.Inspect(s, func(x ast.Node) bool {
			switch y := x.(type) {
			case *ast.ValueSpec:
				for i := range y.Values {
					if &y.Values[i] == from {
						found = true
					}
				}
			case *ast.AssignStmt:
				for i := range y.Rhs {
					if &y.Rhs[i] == from {
						found = true
					}
				}
			}
			return !found
		})
		return found
	}
	started := false
	for i, nd := range path {
		var list []ast.Stmt
		switch b := nd.(type) {
		case *ast.BlockStmt:
			list = b.List
		case *ast.CaseClause:
			list = b.Body
		default:
			if started {
				switch nd.(type) {
				case *ast.SwitchStmt, *ast.LabeledStmt, *ast.RangeStmt:
					// (the single-case switch the inliner wraps a body in)
				default:
					return false
				}
			}
			continue
		}
		var next ast.Node
		if i+1 < len(path) {
			next = path[i+1]
		}
		for _, st := range list {
			if ast.Node(st) == next {
				break
			}
			if !started {
				if holds(st) {
					started = true
				}
				continue
			}
			if !trivial(st) {
				return false
			}
		}
	}
	return started
}
