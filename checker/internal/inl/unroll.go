package inl

import (
	"fmt"
	"go/ast"
	"go/token"

	"golang.org/x/tools/go/packages"
)

// normalizeLiteralRange writes a loop over a short literal list,
//
//	for _, v := range []T{a, b, c} { body }
//
// as the sequence it stands for: the elements are evaluated into fresh
// variables first (as the literal is evaluated before the loop starts), then
// the body is written once per element with v bound to it. Only loops whose
// body neither breaks out of nor continues the loop, and that carry no label,
// are written out (at most six elements). The pinned tree has no such loop; a
// later edit that folds a few consecutive, similar statements into one is then
// seen as the statements it folded.
func (in *inliner) normalizeLiteralRange(pkgs []*packages.Package, excluded func(string) bool) {
	for _, pk := range pkgs {
		for _, f := range pk.Syntax {
			if excluded(in.fset.Position(f.Pos()).Filename) {
				continue
			}
			n := &normCtx{in: in, pkg: pk, file: f}
			eachList(f, n.literalRange)
		}
	}
}

func (n *normCtx) literalRange(s ast.Stmt) []ast.Stmt {
	keep := []ast.Stmt{s}
	rs, ok := s.(*ast.RangeStmt)
	if !ok || rs.Tok != token.DEFINE || (rs.Key != nil && !isBlank(rs.Key)) {
		return keep
	}
	lit, ok := rs.X.(*ast.CompositeLit)
	if !ok || len(lit.Elts) == 0 || len(lit.Elts) > 6 {
		return keep
	}
	at, ok := lit.Type.(*ast.ArrayType)
	if !ok || at.Elt == nil {
		return keep
	}
	for _, e := range lit.Elts {
		if _, isKV := e.(*ast.KeyValueExpr); isKV {
			return keep
		}
	}
	// no way out of, or round, the loop other than falling off the body / return
	bad := false
	var scan func(node ast.Node, inLoop, inSwitch bool)
	scan = func(node ast.Node, inLoop, inSwitch bool) {
		ast.Inspect(node, func(x ast.Node) bool {
			if bad || x == nil {
				return false
			}
			switch y := x.(type) {
			case *ast.FuncLit:
				return false
			case *ast.LabeledStmt:
				bad = true
			case *ast.BranchStmt:
				switch y.Tok {
				case token.GOTO, token.FALLTHROUGH:
					if y.Tok == token.GOTO {
						bad = true
					}
				case token.BREAK:
					if y.Label != nil || !(inLoop || inSwitch) {
						bad = true
					}
				case token.CONTINUE:
					if y.Label != nil || !inLoop {
						bad = true
					}
				}
			case *ast.ForStmt:
				if x != node {
					scan(y.Body, true, false)
					return false
				}
			case *ast.RangeStmt:
				if x != node {
					scan(y.Body, true, false)
					return false
				}
			case *ast.SwitchStmt:
				if x != node {
					scan(y.Body, inLoop, true)
					return false
				}
			case *ast.TypeSwitchStmt:
				if x != node {
					scan(y.Body, inLoop, true)
					return false
				}
			case *ast.SelectStmt:
				if x != node {
					scan(y.Body, inLoop, true)
					return false
				}
			}
			return true
		})
	}
	scan(rs.Body, false, false)
	if bad {
		return keep
	}
	pos := rs.Pos()
	record := func(orig, cp *ast.Ident) { n.in.origOf[cp] = orig }
	var out []ast.Stmt
	var tmps []string
	for i, e := range lit.Elts {
		if inner, isLit := e.(*ast.CompositeLit); isLit && inner.Type == nil {
			inner.Type = cloneNode(at.Elt, record).(ast.Expr)
		}
		n.in.nfresh++
		tmp := fmt.Sprintf("inlE%d_%d", n.in.nfresh, i)
		tmps = append(tmps, tmp)
		out = append(out, &ast.DeclStmt{Decl: &ast.GenDecl{TokPos: pos, Tok: token.VAR, Specs: []ast.Spec{&ast.ValueSpec{
			Names: []*ast.Ident{{NamePos: pos, Name: tmp}}, Type: cloneNode(at.Elt, record).(ast.Expr), Values: []ast.Expr{e}}}}})
		out = append(out, &ast.AssignStmt{Lhs: []ast.Expr{&ast.Ident{NamePos: pos, Name: "_"}}, TokPos: pos, Tok: token.ASSIGN, Rhs: []ast.Expr{&ast.Ident{NamePos: pos, Name: tmp}}})
	}
	for i, tmp := range tmps {
		body := rs.Body
		var val ast.Expr = rs.Value
		if i > 0 {
			body = cloneNode(rs.Body, record).(*ast.BlockStmt)
			if val != nil {
				val = cloneNode(rs.Value, record).(ast.Expr)
			}
		}
		var list []ast.Stmt
		if val != nil && !isBlank(val) {
			list = append(list, &ast.AssignStmt{Lhs: []ast.Expr{val}, TokPos: pos, Tok: token.DEFINE, Rhs: []ast.Expr{&ast.Ident{NamePos: pos, Name: tmp}}})
			list = append(list, &ast.AssignStmt{Lhs: []ast.Expr{&ast.Ident{NamePos: pos, Name: "_"}}, TokPos: pos, Tok: token.ASSIGN, Rhs: []ast.Expr{cloneNode(val, record).(ast.Expr)}})
		}
		list = append(list, body.List...)
		out = append(out, &ast.BlockStmt{Lbrace: pos, List: list, Rbrace: rs.End()})
	}
	n.in.dirty[n.file] = true
	n.in.res.Normalized = append(n.in.res.Normalized, fmt.Sprintf("loop over a %d-element literal at %s written out", len(tmps), n.in.fset.Position(pos)))
	return []ast.Stmt{&ast.BlockStmt{Lbrace: pos, List: out, Rbrace: rs.End()}}
}
