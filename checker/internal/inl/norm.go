package inl

import (
	"fmt"
	"go/ast"
	"go/token"
	"go/types"

	"golang.org/x/tools/go/packages"
)

// normCtx is what the source normalisations of one file share: fresh
// variables (recorded in the package's type information, so that the inliner
// that runs afterwards sees ordinary locals) and a few questions about a loop
// body.
type normCtx struct {
	in   *inliner
	pkg  *packages.Package
	file *ast.File
}

func (n *normCtx) newVar(pos token.Pos, prefix string, t types.Type) (*ast.Ident, *types.Var) {
	n.in.nfresh++
	name := fmt.Sprintf("%s%d_", prefix, n.in.nfresh)
	id := &ast.Ident{NamePos: pos, Name: name}
	v := types.NewVar(pos, n.pkg.Types, name, t)
	n.pkg.TypesInfo.Defs[id] = v
	return id, v
}

func (n *normCtx) use(pos token.Pos, v *types.Var) *ast.Ident {
	id := &ast.Ident{NamePos: pos, Name: v.Name()}
	n.pkg.TypesInfo.Uses[id] = v
	return id
}

func (n *normCtx) objOf(id *ast.Ident) types.Object {
	if o := n.pkg.TypesInfo.Defs[id]; o != nil {
		return o
	}
	return n.pkg.TypesInfo.Uses[id]
}

// assigned reports whether the body assigns, increments or takes the address
// of the variable.
func (n *normCtx) assigned(body ast.Node, v types.Object) bool {
	if body == nil {
		return false
	}
	hit := false
	isV := func(e ast.Expr) bool {
		for {
			p, ok := e.(*ast.ParenExpr)
			if !ok {
				break
			}
			e = p.X
		}
		id, ok := e.(*ast.Ident)
		return ok && n.objOf(id) == v
	}
	ast.Inspect(body, func(x ast.Node) bool {
		switch x := x.(type) {
		case *ast.AssignStmt:
			for _, l := range x.Lhs {
				if isV(l) {
					hit = true
				}
			}
		case *ast.IncDecStmt:
			if isV(x.X) {
				hit = true
			}
		case *ast.UnaryExpr:
			if x.Op == token.AND && isV(x.X) {
				hit = true
			}
		case *ast.RangeStmt:
			if x.Tok == token.ASSIGN && (x.Key != nil && isV(x.Key) || x.Value != nil && isV(x.Value)) {
				hit = true
			}
		}
		return !hit
	})
	return hit
}

// typeExpr spells a basic type or a type of the package itself; nil when the
// type cannot be written without knowing the file's imports.
func (n *normCtx) typeExpr(pos token.Pos, t types.Type) ast.Expr {
	switch tt := t.(type) {
	case *types.Basic:
		if tt.Info()&types.IsUntyped != 0 {
			return nil
		}
		if o := n.pkg.Types.Scope().Lookup(tt.Name()); o != nil {
			return nil // shadowed
		}
		return &ast.Ident{NamePos: pos, Name: tt.Name()}
	case *types.Named:
		if tt.Obj().Pkg() == n.pkg.Types && tt.Obj().Parent() == n.pkg.Types.Scope() && tt.TypeArgs().Len() == 0 {
			id := &ast.Ident{NamePos: pos, Name: tt.Obj().Name()}
			n.pkg.TypesInfo.Uses[id] = tt.Obj()
			return id
		}
	}
	return nil
}

// stable reports whether evaluating e again inside the loop body gives what
// it gave before the loop: a constant, or a local variable the body leaves
// alone.
func (n *normCtx) stable(e ast.Expr, body ast.Node) bool {
	if tv, ok := n.pkg.TypesInfo.Types[e]; ok && tv.Value != nil {
		return true
	}
	if id, ok := e.(*ast.Ident); ok {
		if v, ok := n.objOf(id).(*types.Var); ok && v.Parent() != n.pkg.Types.Scope() && !v.IsField() && !n.assigned(body, v) {
			return true
		}
	}
	return false
}

// hoist returns an expression for the value of e that may be evaluated any
// number of times inside body, and the statements to put in front of the loop.
func (n *normCtx) hoist(pos token.Pos, prefix string, e ast.Expr, body ast.Node) (func() ast.Expr, []ast.Stmt) {
	if n.stable(e, body) {
		first := true
		return func() ast.Expr {
			if first {
				first = false
				return e
			}
			return cloneNode(e, func(orig, cp *ast.Ident) {
				if o := n.pkg.TypesInfo.Uses[orig]; o != nil {
					n.pkg.TypesInfo.Uses[cp] = o
				}
			}).(ast.Expr)
		}, nil
	}
	t := n.pkg.TypesInfo.TypeOf(e)
	id, v := n.newVar(pos, prefix, t)
	pre := []ast.Stmt{&ast.AssignStmt{Lhs: []ast.Expr{id}, TokPos: pos, Tok: token.DEFINE, Rhs: []ast.Expr{e}}}
	return func() ast.Expr { return n.use(pos, v) }, pre
}

// stdFunc returns "pkg.Name" when the call's function is a package-level
// function of the standard library packages slices or maps, "" otherwise.
func (n *normCtx) stdFunc(call *ast.CallExpr) string {
	sel, ok := call.Fun.(*ast.SelectorExpr)
	if !ok {
		return ""
	}
	fn, _ := n.pkg.TypesInfo.Uses[sel.Sel].(*types.Func)
	if fn == nil || fn.Pkg() == nil {
		return ""
	}
	if sig, _ := fn.Type().(*types.Signature); sig == nil || sig.Recv() != nil {
		return ""
	}
	switch fn.Pkg().Path() {
	case "slices", "maps":
		return fn.Pkg().Path() + "." + fn.Name()
	}
	return ""
}

// eachList applies conv to every statement of every statement list of the
// file (labelled statements are handed over whole; an `else if` is handed over
// as a statement and, when replaced, wrapped in a block).
func eachList(f *ast.File, conv func(ast.Stmt) []ast.Stmt) {
	rewrite := func(list []ast.Stmt) []ast.Stmt {
		var out []ast.Stmt
		for _, s := range list {
			out = append(out, conv(s)...)
		}
		return out
	}
	ast.Inspect(f, func(n ast.Node) bool {
		switch x := n.(type) {
		case *ast.BlockStmt:
			x.List = rewrite(x.List)
		case *ast.CaseClause:
			x.Body = rewrite(x.Body)
		case *ast.CommClause:
			x.Body = rewrite(x.Body)
		case *ast.IfStmt:
			if ei, ok := x.Else.(*ast.IfStmt); ok {
				repl := conv(ei)
				if len(repl) != 1 || repl[0] != ast.Stmt(ei) {
					x.Else = &ast.BlockStmt{Lbrace: ei.Pos(), List: repl}
				}
			}
		}
		return true
	})
}
