package inl

import (
	"fmt"
	"go/ast"
	"go/token"
	"go/types"

	"golang.org/x/tools/go/ast/astutil"
	"golang.org/x/tools/go/packages"
)

// normalizeMethodValues spells a method value `x.m` of a method that is new
// relative to the pinned tree (handed to sync.Once.Do, stored in a callback
// field, started with `go`, ...) as the function literal it abbreviates,
// `func(p0 T0, ..) R { return x.m(p0, ..) }`, when x is a local variable,
// parameter or receiver that the enclosing function never assigns again (so
// that evaluating x when the literal runs gives what evaluating it where the
// method value was taken gave). The call inside the literal is then inlined
// like any other call of a new function, and the rules see the statements of
// the method where, in the pinned tree, the statements of a function literal
// stood.
func (in *inliner) normalizeMethodValues(pkgs []*packages.Package, excluded func(string) bool) {
	for _, pk := range pkgs {
		for _, f := range pk.Syntax {
			if excluded(in.fset.Position(f.Pos()).Filename) {
				continue
			}
			file := f
			n := &normCtx{in: in, pkg: pk, file: f}
			for _, d := range f.Decls {
				fd, ok := d.(*ast.FuncDecl)
				if !ok || fd.Body == nil {
					continue
				}
				astutil.Apply(fd.Body, func(c *astutil.Cursor) bool {
					sel, ok := c.Node().(*ast.SelectorExpr)
					if !ok {
						return true
					}
					if call, isCall := c.Parent().(*ast.CallExpr); isCall && call.Fun == ast.Expr(sel) {
						return true
					}
					s := pk.TypesInfo.Selections[sel]
					if s == nil || s.Kind() != types.MethodVal || len(s.Index()) != 1 {
						return true
					}
					m, _ := s.Obj().(*types.Func)
					if m == nil || m.Pkg() != pk.Types {
						return true
					}
					m = m.Origin()
					sig, _ := m.Type().(*types.Signature)
					if sig == nil || sig.Recv() == nil || sig.RecvTypeParams().Len() > 0 {
						return true
					}
					// new relative to the pinned tree?
					rt := sig.Recv().Type()
					ptr := false
					if p, isP := rt.(*types.Pointer); isP {
						rt, ptr = p.Elem(), true
					}
					named, _ := rt.(*types.Named)
					if named == nil {
						return true
					}
					key := pk.PkgPath + ".(" + named.Obj().Name() + ")." + m.Name()
					if ptr {
						key = pk.PkgPath + ".(*" + named.Obj().Name() + ")." + m.Name()
					}
					if InBaseline(key) {
						return true
					}
					id, ok := sel.X.(*ast.Ident)
					if !ok {
						return true
					}
					v, _ := n.objOf(id).(*types.Var)
					// (a pointer-receiver method of an addressable struct variable
					// binds the variable's address, and so does the call inside
					// the literal: assignments to the variable change nothing)
					bindsAddr := false
					if v != nil {
						_, vIsPtr := v.Type().Underlying().(*types.Pointer)
						bindsAddr = ptr && !vIsPtr
					}
					if v == nil || v.IsField() || v.Parent() == pk.Types.Scope() || (!bindsAddr && n.assignedAfterDecl(fd.Body, v)) {
						return true
					}
					// the literal's signature, spelled with the file's imports
					q := &qualifier{pk: pk, file: file}
					pos := sel.Pos()
					var params, results []*ast.Field
					var args []ast.Expr
					for i := 0; i < sig.Params().Len(); i++ {
						t := sig.Params().At(i).Type()
						variadic := sig.Variadic() && i == sig.Params().Len()-1
						if variadic {
							t = t.(*types.Slice).Elem()
						}
						e, ok := parseTypeExpr(types.TypeString(t, q.qual))
						if !ok || q.failed {
							return true
						}
						name := fmt.Sprintf("mv%d_", i)
						if variadic {
							e = &ast.Ellipsis{Elt: e}
						}
						params = append(params, &ast.Field{Names: []*ast.Ident{ast.NewIdent(name)}, Type: e})
						args = append(args, ast.NewIdent(name))
					}
					for i := 0; i < sig.Results().Len(); i++ {
						e, ok := parseTypeExpr(types.TypeString(sig.Results().At(i).Type(), q.qual))
						if !ok || q.failed {
							return true
						}
						results = append(results, &ast.Field{Type: e})
					}
					call := &ast.CallExpr{Fun: sel, Lparen: pos, Args: args}
					if sig.Variadic() {
						call.Ellipsis = pos
					}
					var body ast.Stmt = &ast.ExprStmt{X: call}
					if len(results) > 0 {
						body = &ast.ReturnStmt{Return: pos, Results: []ast.Expr{call}}
					}
					ft := &ast.FuncType{Func: pos, Params: &ast.FieldList{List: params}}
					if len(results) > 0 {
						ft.Results = &ast.FieldList{List: results}
					}
					c.Replace(&ast.FuncLit{Type: ft, Body: &ast.BlockStmt{Lbrace: pos, List: []ast.Stmt{body}}})
					in.dirty[file] = true
					in.res.Normalized = append(in.res.Normalized, fmt.Sprintf("method value %s.%s at %s spelled as a function literal", id.Name, m.Name(), in.fset.Position(pos)))
					return false
				}, nil)
			}
		}
	}
}

// assignedAfterDecl: the body assigns to v (other than where it declares it),
// increments it or takes its address.
func (n *normCtx) assignedAfterDecl(body ast.Node, v types.Object) bool {
	hit := false
	isV := func(e ast.Expr) (*ast.Ident, bool) {
		for {
			p, ok := e.(*ast.ParenExpr)
			if !ok {
				break
			}
			e = p.X
		}
		id, ok := e.(*ast.Ident)
		return id, ok && n.objOf(id) == v
	}
	ast.Inspect(body, func(x ast.Node) bool {
		switch x := x.(type) {
		case *ast.AssignStmt:
			for _, l := range x.Lhs {
				if id, ok := isV(l); ok && !(x.Tok == token.DEFINE && n.pkg.TypesInfo.Defs[id] == v) {
					hit = true
				}
			}
		case *ast.IncDecStmt:
			if _, ok := isV(x.X); ok {
				hit = true
			}
		case *ast.UnaryExpr:
			if _, ok := isV(x.X); ok && x.Op == token.AND {
				hit = true
			}
		case *ast.RangeStmt:
			if x.Tok == token.ASSIGN {
				if x.Key != nil {
					if _, ok := isV(x.Key); ok {
						hit = true
					}
				}
				if x.Value != nil {
					if _, ok := isV(x.Value); ok {
						hit = true
					}
				}
			}
		}
		return !hit
	})
	return hit
}
