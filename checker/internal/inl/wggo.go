package inl

import (
	"fmt"
	"go/ast"
	"go/token"
	"go/types"

	"golang.org/x/tools/go/packages"
)

// normalizeWaitGroupGo spells `wg.Go(f)` (sync.WaitGroup.Go, Go 1.25) the way
// the pinned tree spells goroutine starts: `wg.Add(1); go func() { defer
// wg.Done(); f() }()`. That is the method's definition, so nothing changes;
// the rules about goroutine accounting, spawn sites and captured state then
// see one form only.
func (in *inliner) normalizeWaitGroupGo(pkgs []*packages.Package, excluded func(string) bool) {
	for _, pk := range pkgs {
		for _, f := range pk.Syntax {
			if excluded(in.fset.Position(f.Pos()).Filename) {
				continue
			}
			file := f
			isWGGo := func(s ast.Stmt) (*ast.CallExpr, ast.Expr) {
				es, ok := s.(*ast.ExprStmt)
				if !ok {
					return nil, nil
				}
				call, ok := es.X.(*ast.CallExpr)
				if !ok || len(call.Args) != 1 {
					return nil, nil
				}
				sel, ok := call.Fun.(*ast.SelectorExpr)
				if !ok || sel.Sel.Name != "Go" {
					return nil, nil
				}
				fn, _ := pk.TypesInfo.Uses[sel.Sel].(*types.Func)
				if fn == nil || fn.Pkg() == nil || fn.Pkg().Path() != "sync" {
					return nil, nil
				}
				sig, _ := fn.Type().(*types.Signature)
				if sig == nil || sig.Recv() == nil {
					return nil, nil
				}
				return call, sel.X
			}
			rewrite := func(list []ast.Stmt) []ast.Stmt {
				var out []ast.Stmt
				for _, s := range list {
					call, wg := isWGGo(s)
					if call == nil {
						out = append(out, s)
						continue
					}
					pos := call.Pos()
					wg1 := cloneNode(wg, func(orig, cp *ast.Ident) { in.origOf[cp] = orig }).(ast.Expr)
					wg2 := cloneNode(wg, func(orig, cp *ast.Ident) { in.origOf[cp] = orig }).(ast.Expr)
					add := &ast.ExprStmt{X: &ast.CallExpr{
						Fun:    &ast.SelectorExpr{X: wg1, Sel: &ast.Ident{NamePos: pos, Name: "Add"}},
						Lparen: pos,
						Args:   []ast.Expr{&ast.BasicLit{ValuePos: pos, Kind: token.INT, Value: "1"}},
					}}
					deferDone := &ast.DeferStmt{Defer: pos, Call: &ast.CallExpr{
						Fun:    &ast.SelectorExpr{X: wg2, Sel: &ast.Ident{NamePos: pos, Name: "Done"}},
						Lparen: pos,
					}}
					var body []ast.Stmt
					body = append(body, deferDone)
					if lit, ok := call.Args[0].(*ast.FuncLit); ok && (lit.Type.Params == nil || len(lit.Type.Params.List) == 0) {
						body = append(body, lit.Body.List...)
					} else {
						body = append(body, &ast.ExprStmt{X: &ast.CallExpr{Fun: call.Args[0], Lparen: pos}})
					}
					goStmt := &ast.GoStmt{Go: pos, Call: &ast.CallExpr{
						Fun:    &ast.FuncLit{Type: &ast.FuncType{Func: pos, Params: &ast.FieldList{}}, Body: &ast.BlockStmt{Lbrace: pos, List: body}},
						Lparen: pos,
					}}
					out = append(out, add, goStmt)
					in.dirty[file] = true
					in.res.Normalized = append(in.res.Normalized, fmt.Sprintf("wg.Go at %s spelled as Add(1) + go func(){ defer Done(); .. }()", in.fset.Position(pos)))
				}
				return out
			}
			ast.Inspect(f, func(n ast.Node) bool {
				switch x := n.(type) {
				case *ast.BlockStmt:
					x.List = rewrite(x.List)
				case *ast.CaseClause:
					x.Body = rewrite(x.Body)
				case *ast.CommClause:
					x.Body = rewrite(x.Body)
				}
				return true
			})
		}
	}
}
