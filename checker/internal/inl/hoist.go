package inl

import (
	"fmt"
	"go/ast"
	"go/token"
	"go/types"

	"golang.org/x/tools/go/packages"
)

// normalizeCallShapes brings two call shapes of functions that are new
// relative to the pinned tree into the shapes the inliner handles:
//
//   - `go f(a, b)` / `defer f(a, b)` become `t0, t1 := a, b; go func() { f(t0,
//     t1) }()` (the operands are evaluated where the statement stands, as the
//     language does; the call itself runs where it ran before);
//   - a call that is nested in the expression of a simple statement and is the
//     first thing that statement evaluates with an effect (no other call or
//     channel receive comes before it in evaluation order, and it is not under
//     && / ||) is computed into a fresh variable in front of the statement:
//     `m(k)[i] = v` becomes `t := m(k); t[i] = v`.
func (in *inliner) normalizeCallShapes(pkgs []*packages.Package, excluded func(string) bool) {
	for _, pk := range pkgs {
		for _, f := range pk.Syntax {
			if excluded(in.fset.Position(f.Pos()).Filename) {
				continue
			}
			n := &normCtx{in: in, pkg: pk, file: f}
			eachList(f, n.goOfNew)
			eachList(f, n.forCondToIf)
			eachList(f, n.switchToIf)
			eachList(f, n.switchTagCall)
			eachList(f, n.splitShortCircuit)
			eachList(f, n.hoistFirstCall)
		}
	}
}

func (n *normCtx) isNewCallee(call *ast.CallExpr) bool {
	st := n.in.calleeOf(n.pkg, call)
	return st != nil && st.c != nil && st.c.lit == nil
}

func (n *normCtx) goOfNew(s ast.Stmt) []ast.Stmt {
	keep := []ast.Stmt{s}
	var call *ast.CallExpr
	switch x := s.(type) {
	case *ast.GoStmt:
		call = x.Call
	case *ast.DeferStmt:
		call = x.Call
	default:
		return keep
	}
	if !n.isNewCallee(call) || call.Ellipsis.IsValid() {
		return keep
	}
	pos := call.Pos()
	var pre []ast.Stmt
	tmp := func(e ast.Expr) ast.Expr {
		n.in.nfresh++
		name := fmt.Sprintf("inlG%d_", n.in.nfresh)
		pre = append(pre, &ast.AssignStmt{Lhs: []ast.Expr{&ast.Ident{NamePos: pos, Name: name}}, TokPos: pos, Tok: token.DEFINE, Rhs: []ast.Expr{e}})
		return &ast.Ident{NamePos: pos, Name: name}
	}
	// the receiver expression, unless it is a plain identifier chain of a
	// variable (evaluated again inside the literal it names the same thing
	// unless reassigned; kept simple: always through a temporary when it is
	// not a bare identifier)
	if sel, ok := call.Fun.(*ast.SelectorExpr); ok {
		if _, isPkg := n.objOf(rootIdent(sel.X)).(*types.PkgName); !isPkg {
			if _, bare := sel.X.(*ast.Ident); !bare {
				return keep
			}
		}
	}
	for i, a := range call.Args {
		if tv, ok := n.pkg.TypesInfo.Types[a]; ok && tv.Value != nil {
			continue // constants need no temporary
		}
		if tv, ok := n.pkg.TypesInfo.Types[a]; ok && tv.IsNil() {
			continue
		}
		call.Args[i] = tmp(a)
	}
	inner := &ast.CallExpr{Fun: call.Fun, Lparen: pos, Args: call.Args, Rparen: call.Rparen}
	lit := &ast.FuncLit{Type: &ast.FuncType{Func: pos, Params: &ast.FieldList{}}, Body: &ast.BlockStmt{Lbrace: pos, List: []ast.Stmt{&ast.ExprStmt{X: inner}}, Rbrace: call.End()}}
	outer := &ast.CallExpr{Fun: lit, Lparen: pos, Rparen: call.End()}
	switch x := s.(type) {
	case *ast.GoStmt:
		x.Call = outer
	case *ast.DeferStmt:
		x.Call = outer
	}
	n.in.dirty[n.file] = true
	n.in.res.Normalized = append(n.in.res.Normalized, fmt.Sprintf("go/defer of a new function at %s wrapped in a literal", n.in.fset.Position(pos)))
	return append(pre, s)
}

func rootIdent(e ast.Expr) *ast.Ident {
	for {
		switch x := e.(type) {
		case *ast.Ident:
			return x
		case *ast.SelectorExpr:
			e = x.X
		case *ast.ParenExpr:
			e = x.X
		case *ast.StarExpr:
			e = x.X
		default:
			return &ast.Ident{Name: "_"}
		}
	}
}

// hoistFirstCall: see normalizeCallShapes.
func (n *normCtx) hoistFirstCall(s ast.Stmt) []ast.Stmt {
	keep := []ast.Stmt{s}
	var roots []*ast.Expr
	switch x := s.(type) {
	case *ast.ExprStmt:
		if _, isCall := x.X.(*ast.CallExpr); isCall {
			// the arguments and receiver of a statement call
			roots = append(roots, &x.X)
		} else {
			return keep
		}
	case *ast.AssignStmt:
		if x.Tok != token.ASSIGN && x.Tok != token.DEFINE {
			return keep
		}
		// left-hand operands (index / selector operands) are evaluated
		// first, then the right-hand side
		for i := range x.Lhs {
			if _, isId := x.Lhs[i].(*ast.Ident); !isId {
				roots = append(roots, &x.Lhs[i])
			}
		}
		for i := range x.Rhs {
			roots = append(roots, &x.Rhs[i])
		}
	case *ast.ReturnStmt:
		for i := range x.Results {
			roots = append(roots, &x.Results[i])
		}
	case *ast.SendStmt:
		roots = append(roots, &x.Chan, &x.Value)
	case *ast.IfStmt:
		if x.Init != nil {
			return keep
		}
		roots = append(roots, &x.Cond)
	default:
		return keep
	}
	// the first effectful operation in evaluation order
	var first *ast.Expr
	blocked := false
	var visit func(e *ast.Expr)
	visit = func(e *ast.Expr) {
		if first != nil || blocked || *e == nil {
			return
		}
		switch x := (*e).(type) {
		case *ast.FuncLit:
			return
		case *ast.BinaryExpr:
			visit(&x.X)
			if x.Op == token.LAND || x.Op == token.LOR {
				// the right operand is evaluated conditionally
				if first == nil {
					probe := false
					ast.Inspect(x.Y, func(m ast.Node) bool {
						if _, ok := m.(*ast.CallExpr); ok {
							probe = true
						}
						return !probe
					})
					if probe {
						blocked = true
					}
				}
				return
			}
			visit(&x.Y)
		case *ast.UnaryExpr:
			visit(&x.X)
			if first == nil && x.Op == token.ARROW {
				blocked = true
			}
		case *ast.ParenExpr:
			visit(&x.X)
		case *ast.StarExpr:
			visit(&x.X)
		case *ast.SelectorExpr:
			visit(&x.X)
		case *ast.IndexExpr:
			visit(&x.X)
			visit(&x.Index)
		case *ast.SliceExpr:
			visit(&x.X)
			visit(&x.Low)
			visit(&x.High)
			visit(&x.Max)
		case *ast.TypeAssertExpr:
			visit(&x.X)
		case *ast.KeyValueExpr:
			visit(&x.Value)
		case *ast.CompositeLit:
			for i := range x.Elts {
				visit(&x.Elts[i])
			}
		case *ast.CallExpr:
			// operands first
			if tv, ok := n.pkg.TypesInfo.Types[x.Fun]; ok && tv.IsType() {
				for i := range x.Args {
					visit(&x.Args[i])
				}
				return
			}
			visit(&x.Fun)
			for i := range x.Args {
				visit(&x.Args[i])
			}
			if first == nil && !blocked {
				first = e
			}
		}
	}
	for _, r := range roots {
		visit(r)
	}
	if first == nil || blocked {
		return keep
	}
	call := (*first).(*ast.CallExpr)
	// already in a shape the inliner handles?
	for _, r := range roots {
		if r == first {
			switch s.(type) {
			case *ast.ExprStmt:
				return keep
			case *ast.AssignStmt:
				if len(s.(*ast.AssignStmt).Rhs) == 1 {
					return keep
				}
			case *ast.ReturnStmt:
				if len(s.(*ast.ReturnStmt).Results) == 1 {
					return keep
				}
			case *ast.IfStmt:
				return keep
			}
		}
	}
	if ifs, ok := s.(*ast.IfStmt); ok {
		// `if !f(..)` is handled as it is
		if u, ok := ifs.Cond.(*ast.UnaryExpr); ok && u.Op == token.NOT && &u.X == first {
			return keep
		}
	}
	if st := n.in.calleeOf(n.pkg, call); st == nil || st.c == nil {
		// not a new function itself, but evaluated before one in the same
		// statement (`return !b.send(ch, tx.TxHash())`): putting the first
		// call of a statement into a variable in front of it never changes
		// the order of evaluation, and the next round finds the new
		// function's call first
		later := false
		for _, r := range roots {
			ast.Inspect(*r, func(m ast.Node) bool {
				switch y := m.(type) {
				case *ast.FuncLit:
					return false
				case *ast.CallExpr:
					if y != call && n.isNewCallee(y) {
						later = true
					}
				}
				return !later
			})
		}
		if !later {
			return keep
		}
	}
	// single-valued calls only
	if tv, ok := n.pkg.TypesInfo.Types[call]; !ok || tv.Type == nil {
		return keep
	} else if _, isTuple := tv.Type.(*types.Tuple); isTuple {
		return keep
	}
	pos := call.Pos()
	n.in.nfresh++
	name := fmt.Sprintf("inlH%d_", n.in.nfresh)
	*first = &ast.Ident{NamePos: pos, Name: name}
	def := &ast.AssignStmt{Lhs: []ast.Expr{&ast.Ident{NamePos: pos, Name: name}}, TokPos: pos, Tok: token.DEFINE, Rhs: []ast.Expr{call}}
	n.in.dirty[n.file] = true
	n.in.res.Normalized = append(n.in.res.Normalized, fmt.Sprintf("nested call of a new function at %s computed into a variable first", n.in.fset.Position(pos)))
	return []ast.Stmt{def, s}
}

// splitShortCircuit: `if X || Y { .. }` (or &&) whose right operand calls a
// new function is written as the evaluation it stands for,
//
//	c := X; if !c { c = Y }; if c { .. }
//
// so that the call in Y stands in a simple statement (and is inlined like any
// other); the branch structure is the one the compiler builds for || anyway.
func (n *normCtx) splitShortCircuit(s ast.Stmt) []ast.Stmt {
	keep := []ast.Stmt{s}
	ifs, ok := s.(*ast.IfStmt)
	if !ok || ifs.Init != nil {
		return keep
	}
	cond := ifs.Cond
	for {
		p, ok := cond.(*ast.ParenExpr)
		if !ok {
			break
		}
		cond = p.X
	}
	be, ok := cond.(*ast.BinaryExpr)
	if !ok || (be.Op != token.LAND && be.Op != token.LOR) {
		return keep
	}
	hasNew := false
	ast.Inspect(be.Y, func(m ast.Node) bool {
		switch x := m.(type) {
		case *ast.FuncLit:
			return false
		case *ast.CallExpr:
			if n.isNewCallee(x) {
				hasNew = true
			}
		}
		return !hasNew
	})
	if !hasNew {
		return keep
	}
	pos := ifs.Pos()
	n.in.nfresh++
	name := fmt.Sprintf("inlC%d_", n.in.nfresh)
	id := func() *ast.Ident { return &ast.Ident{NamePos: pos, Name: name} }
	def := &ast.AssignStmt{Lhs: []ast.Expr{id()}, TokPos: pos, Tok: token.DEFINE, Rhs: []ast.Expr{be.X}}
	var test ast.Expr = id()
	if be.Op == token.LOR {
		test = &ast.UnaryExpr{OpPos: pos, Op: token.NOT, X: id()}
	}
	second := &ast.IfStmt{If: pos, Cond: test, Body: &ast.BlockStmt{Lbrace: pos, List: []ast.Stmt{
		&ast.AssignStmt{Lhs: []ast.Expr{id()}, TokPos: pos, Tok: token.ASSIGN, Rhs: []ast.Expr{be.Y}},
	}, Rbrace: pos}}
	ifs.Cond = id()
	n.in.dirty[n.file] = true
	n.in.res.Normalized = append(n.in.res.Normalized, fmt.Sprintf("short-circuit condition at %s written as its evaluation", n.in.fset.Position(pos)))
	return []ast.Stmt{def, second, s}
}

// switchToIf: a switch without a tag one of whose case expressions calls a new
// function is written as the if / else-if chain it stands for (cases are
// tried from top to bottom, the default last), so that the call stands in a
// condition the inliner handles. Switches whose clauses break out of the
// switch or fall through are left alone.
func (n *normCtx) switchToIf(s ast.Stmt) []ast.Stmt {
	keep := []ast.Stmt{s}
	sw, ok := s.(*ast.SwitchStmt)
	if !ok || sw.Tag != nil || sw.Init != nil || len(sw.Body.List) == 0 {
		return keep
	}
	hasNew := false
	for _, cl := range sw.Body.List {
		for _, e := range cl.(*ast.CaseClause).List {
			ast.Inspect(e, func(m ast.Node) bool {
				switch x := m.(type) {
				case *ast.FuncLit:
					return false
				case *ast.CallExpr:
					if n.isNewCallee(x) {
						hasNew = true
					}
				}
				return !hasNew
			})
		}
	}
	if !hasNew {
		return keep
	}
	// no break that targets this switch, no fallthrough
	bad := false
	var scan func(node ast.Node, inner bool)
	scan = func(node ast.Node, inner bool) {
		ast.Inspect(node, func(x ast.Node) bool {
			if bad || x == nil {
				return false
			}
			switch y := x.(type) {
			case *ast.FuncLit:
				return false
			case *ast.BranchStmt:
				if y.Tok == token.FALLTHROUGH || (y.Tok == token.BREAK && y.Label == nil && !inner) {
					bad = true
				}
			case *ast.ForStmt:
				scan(y.Body, true)
				return false
			case *ast.RangeStmt:
				scan(y.Body, true)
				return false
			case *ast.SwitchStmt:
				scan(y.Body, true)
				return false
			case *ast.TypeSwitchStmt:
				scan(y.Body, true)
				return false
			case *ast.SelectStmt:
				scan(y.Body, true)
				return false
			}
			return true
		})
	}
	for _, cl := range sw.Body.List {
		for _, st := range cl.(*ast.CaseClause).Body {
			scan(st, false)
		}
	}
	if bad {
		return keep
	}
	pos := sw.Pos()
	var def *ast.CaseClause
	var first, last *ast.IfStmt
	for _, cl := range sw.Body.List {
		cc := cl.(*ast.CaseClause)
		if cc.List == nil {
			def = cc
			continue
		}
		cond := cc.List[0]
		for _, e := range cc.List[1:] {
			cond = &ast.BinaryExpr{X: cond, OpPos: pos, Op: token.LOR, Y: e}
		}
		ifs := &ast.IfStmt{If: cc.Pos(), Cond: cond, Body: &ast.BlockStmt{Lbrace: cc.Colon, List: cc.Body, Rbrace: cc.End()}}
		if first == nil {
			first = ifs
		} else {
			last.Else = ifs
		}
		last = ifs
	}
	if first == nil {
		return keep
	}
	if def != nil {
		last.Else = &ast.BlockStmt{Lbrace: def.Colon, List: def.Body, Rbrace: def.End()}
	}
	n.in.dirty[n.file] = true
	n.in.res.Normalized = append(n.in.res.Normalized, fmt.Sprintf("switch without a tag at %s written as an if chain", n.in.fset.Position(pos)))
	return []ast.Stmt{first}
}

// forCondToIf: `for COND { .. }` (no post statement) whose condition calls a
// new function is written `for { if !(COND) { break }; .. }`: the condition is
// evaluated at the same points (on entry and after every pass, `continue`
// included), and the call stands in an if condition.
func (n *normCtx) forCondToIf(s ast.Stmt) []ast.Stmt {
	keep := []ast.Stmt{s}
	fs, ok := s.(*ast.ForStmt)
	if !ok || fs.Cond == nil || fs.Post != nil || fs.Init != nil {
		return keep
	}
	hasNew := false
	ast.Inspect(fs.Cond, func(m ast.Node) bool {
		switch x := m.(type) {
		case *ast.FuncLit:
			return false
		case *ast.CallExpr:
			if n.isNewCallee(x) {
				hasNew = true
			}
		}
		return !hasNew
	})
	if !hasNew {
		return keep
	}
	pos := fs.Cond.Pos()
	test := &ast.IfStmt{If: pos, Cond: &ast.UnaryExpr{OpPos: pos, Op: token.NOT, X: &ast.ParenExpr{Lparen: pos, X: fs.Cond, Rparen: fs.Cond.End()}},
		Body: &ast.BlockStmt{Lbrace: pos, List: []ast.Stmt{&ast.BranchStmt{TokPos: pos, Tok: token.BREAK}}, Rbrace: pos}}
	fs.Cond = nil
	fs.Body.List = append([]ast.Stmt{test}, fs.Body.List...)
	n.in.dirty[n.file] = true
	n.in.res.Normalized = append(n.in.res.Normalized, fmt.Sprintf("loop condition at %s written as a test at the top of the body", n.in.fset.Position(pos)))
	return keep
}

// switchTagCall: `switch f(a) { .. }` with f new relative to the pinned tree
// becomes `t := f(a); switch t { .. }` (the tag is evaluated once, first, in
// both spellings), so that the call stands where the inliner handles it. A
// switch with an init statement is wrapped in a block that runs the init
// statement first.
func (n *normCtx) switchTagCall(s ast.Stmt) []ast.Stmt {
	keep := []ast.Stmt{s}
	sw, ok := s.(*ast.SwitchStmt)
	if !ok || sw.Tag == nil || sw.Init != nil {
		return keep
	}
	call, ok := sw.Tag.(*ast.CallExpr)
	if !ok || !n.isNewCallee(call) {
		return keep
	}
	t := n.pkg.TypesInfo.TypeOf(call)
	if t == nil {
		return keep
	}
	if _, isTuple := t.(*types.Tuple); isTuple {
		return keep
	}
	id, _ := n.newVar(call.Pos(), "inlW", t)
	def := &ast.AssignStmt{Lhs: []ast.Expr{id}, TokPos: call.Pos(), Tok: token.DEFINE, Rhs: []ast.Expr{call}}
	use := &ast.Ident{NamePos: call.Pos(), Name: id.Name}
	n.pkg.TypesInfo.Uses[use] = n.pkg.TypesInfo.Defs[id]
	sw.Tag = use
	n.in.dirty[n.file] = true
	n.in.res.Normalized = append(n.in.res.Normalized, fmt.Sprintf("switch tag computed by a new function put into a variable at %s", n.in.fset.Position(call.Pos())))
	// (a block keeps the variable out of the surrounding scope)
	return []ast.Stmt{&ast.BlockStmt{Lbrace: s.Pos(), List: []ast.Stmt{def, sw}, Rbrace: s.End()}}
}
