package inl

import (
	"fmt"
	"go/ast"
	"go/token"
	"go/types"

	"golang.org/x/tools/go/packages"
)

// normalizeRangeInt spells `for i := range n` over an integer n (Go 1.22) the
// way the pinned tree spells counting loops: `for i := T(0); i < n; i++`.
// go/ssa builds the range form as a rotated loop (the entry test is a block
// of its own and the header does not dominate the code after the loop), so
// the loop rules would otherwise have to know two shapes of one loop. The two
// forms agree when the body neither assigns the counter nor changes n; n is
// hoisted into a fresh variable when it is not a constant or a local the body
// leaves alone, and a loop that assigns its counter is left as it is.
func (in *inliner) normalizeRangeInt(pkgs []*packages.Package, excluded func(string) bool) {
	for _, pk := range pkgs {
		for _, f := range pk.Syntax {
			if excluded(in.fset.Position(f.Pos()).Filename) {
				continue
			}
			n := &normCtx{in: in, pkg: pk, file: f}
			file, pkg := f, pk
			newVar, use, objOf, assigned, typeExpr := n.newVar, n.use, n.objOf, n.assigned, n.typeExpr
			// convert returns the statements replacing s (s itself when it is
			// not an integer range loop)
			convert := func(s ast.Stmt) []ast.Stmt {
				inner := s
				var labels []*ast.LabeledStmt
				for {
					l, ok := inner.(*ast.LabeledStmt)
					if !ok {
						break
					}
					labels = append(labels, l)
					inner = l.Stmt
				}
				rs, ok := inner.(*ast.RangeStmt)
				if !ok || rs.Value != nil {
					return []ast.Stmt{s}
				}
				tv, ok := pkg.TypesInfo.Types[rs.X]
				if !ok || tv.Type == nil {
					return []ast.Stmt{s}
				}
				bt, ok := tv.Type.Underlying().(*types.Basic)
				if !ok || bt.Info()&types.IsInteger == 0 {
					return []ast.Stmt{s}
				}
				pos := rs.For
				// the counter's type
				ct := tv.Type
				untyped := bt.Info()&types.IsUntyped != 0
				if untyped {
					ct = types.Typ[types.Int]
				}
				var zero ast.Expr = &ast.BasicLit{ValuePos: pos, Kind: token.INT, Value: "0"}
				if !untyped && !(types.Identical(ct, types.Typ[types.Int])) {
					te := typeExpr(pos, ct)
					if te == nil {
						return []ast.Stmt{s}
					}
					zero = &ast.CallExpr{Fun: te, Lparen: pos, Args: []ast.Expr{zero}, Rparen: pos}
				}
				// the counter
				var key *ast.Ident
				var keyUse func() ast.Expr
				tok := rs.Tok
				if id, ok := rs.Key.(*ast.Ident); ok && id.Name != "_" {
					o := objOf(id)
					if o == nil || assigned(rs.Body, o) {
						return []ast.Stmt{s}
					}
					key = id
					keyUse = func() ast.Expr {
						u := &ast.Ident{NamePos: pos, Name: id.Name}
						pkg.TypesInfo.Uses[u] = o
						return u
					}
				} else if rs.Key == nil || ok {
					id, v := newVar(pos, "ri", ct)
					key, tok = id, token.DEFINE
					keyUse = func() ast.Expr { return use(pos, v) }
				} else {
					return []ast.Stmt{s} // for x.f = range n
				}
				// the bound
				var pre []ast.Stmt
				bound := rs.X
				stable := tv.Value != nil
				if id, ok := rs.X.(*ast.Ident); ok && !stable {
					if v, ok := objOf(id).(*types.Var); ok && v.Parent() != pkg.Types.Scope() && !v.IsField() && !assigned(rs.Body, v) {
						stable = true
					}
				}
				if !stable {
					id, v := newVar(pos, "rn", tv.Type)
					pre = append(pre, &ast.AssignStmt{Lhs: []ast.Expr{id}, TokPos: pos, Tok: token.DEFINE, Rhs: []ast.Expr{rs.X}})
					bound = use(pos, v)
				}
				loop := &ast.ForStmt{
					For:  pos,
					Init: &ast.AssignStmt{Lhs: []ast.Expr{key}, TokPos: pos, Tok: tok, Rhs: []ast.Expr{zero}},
					Cond: &ast.BinaryExpr{X: keyUse(), OpPos: pos, Op: token.LSS, Y: bound},
					Post: &ast.IncDecStmt{X: keyUse(), TokPos: pos, Tok: token.INC},
					Body: rs.Body,
				}
				var out ast.Stmt = loop
				if len(labels) > 0 {
					labels[len(labels)-1].Stmt = loop
					out = labels[0]
				}
				in.dirty[file] = true
				in.res.Normalized = append(in.res.Normalized, fmt.Sprintf("integer range loop at %s spelled as a three-clause loop", in.fset.Position(pos)))
				return append(pre, out)
			}
			eachList(f, convert)
		}
	}
}
