package inl

import (
	"fmt"
	"go/ast"
	"go/token"
	"go/types"

	"golang.org/x/tools/go/packages"
)

// Conversion: the baseline function OldName (a method when OldIsMethod) is now
// New, a method (a function when OldIsMethod); the receiver value sits at
// parameter position K of the function-shaped side.
type Conversion struct {
	OldName     string
	OldIsMethod bool
	New         *types.Func
	K           int
}

// Conversions to undo in the next Transform; Undone lists what was done.
var Conversions []Conversion

// deconvert undoes function<->method conversions of unexported functions at
// source level: the declaration gets its baseline shape back (receiver moved
// into / out of the parameter list, old name) and every call is respelled.
// A conversion is left alone unless every use of the function is a plain call.
func (in *inliner) deconvert(pkgs []*packages.Package, excluded func(string) bool) {
	for _, cv := range Conversions {
		var pk *packages.Package
		var decl *ast.FuncDecl
		var file *ast.File
		for _, p := range pkgs {
			for _, f := range p.Syntax {
				for _, d := range f.Decls {
					if fd, ok := d.(*ast.FuncDecl); ok && fd.Body != nil {
						if obj, _ := p.TypesInfo.Defs[fd.Name].(*types.Func); obj != nil && obj == cv.New {
							pk, decl, file = p, fd, f
						}
					}
				}
			}
		}
		if decl == nil || excluded(in.fset.Position(file.Pos()).Filename) || decl.Type.TypeParams != nil {
			continue
		}
		// every use must be the callee of a call, in non-excluded files
		type use struct {
			call *ast.CallExpr
			file *ast.File
		}
		var uses []use
		ok := true
		nUses := 0
		for id, obj := range pk.TypesInfo.Uses {
			if f, isF := obj.(*types.Func); isF && f.Origin() == cv.New {
				_ = id
				nUses++
			}
		}
		for _, f := range pk.Syntax {
			if excluded(in.fset.Position(f.Pos()).Filename) {
				continue
			}
			ast.Inspect(f, func(n ast.Node) bool {
				call, isCall := n.(*ast.CallExpr)
				if !isCall {
					return true
				}
				var id *ast.Ident
				switch fun := call.Fun.(type) {
				case *ast.Ident:
					id = fun
				case *ast.SelectorExpr:
					id = fun.Sel
				}
				if id == nil {
					return true
				}
				if obj, _ := pk.TypesInfo.Uses[id].(*types.Func); obj != nil && obj.Origin() == cv.New {
					uses = append(uses, use{call, f})
				}
				return true
			})
		}
		if len(uses) != nUses {
			continue // method values, references from test files, ...
		}
		sig := cv.New.Type().(*types.Signature)
		if !cv.OldIsMethod {
			// method -> function: calls x.M(args) become F(args.., x, ..args)
			type edit struct {
				call *ast.CallExpr
				recv ast.Expr
			}
			var edits []edit
			recvIsPtr := false
			if _, isP := sig.Recv().Type().(*types.Pointer); isP {
				recvIsPtr = true
			}
			for _, u := range uses {
				fun, isSel := u.call.Fun.(*ast.SelectorExpr)
				if !isSel {
					ok = false
					break
				}
				sel := pk.TypesInfo.Selections[fun]
				if sel == nil || sel.Kind() != types.MethodVal || len(sel.Index()) != 1 {
					ok = false
					break
				}
				xt := pk.TypesInfo.TypeOf(fun.X)
				if xt == nil {
					ok = false
					break
				}
				_, xIsPtr := xt.Underlying().(*types.Pointer)
				var recv ast.Expr = fun.X
				switch {
				case recvIsPtr && !xIsPtr:
					recv = &ast.UnaryExpr{Op: token.AND, X: paren(fun.X)}
				case !recvIsPtr && xIsPtr:
					recv = &ast.StarExpr{X: paren(fun.X)}
				}
				edits = append(edits, edit{u.call, recv})
			}
			if !ok || decl.Recv == nil || len(decl.Recv.List) != 1 {
				continue
			}
			params := flatten(decl.Type.Params)
			rf := decl.Recv.List[0]
			named := len(params) > 0 && len(params[0].Names) > 0
			if len(rf.Names) == 0 {
				if named {
					rf.Names = []*ast.Ident{ast.NewIdent("_")}
				}
			} else if !named {
				for _, p := range params {
					p.Names = []*ast.Ident{ast.NewIdent("_")}
				}
			}
			if cv.K > len(params) {
				continue
			}
			params = append(params[:cv.K:cv.K], append([]*ast.Field{rf}, params[cv.K:]...)...)
			decl.Type.Params.List = params
			decl.Recv = nil
			decl.Name = &ast.Ident{NamePos: decl.Name.NamePos, Name: cv.OldName}
			in.dirty[file] = true
			for i, e := range edits {
				fun := e.call.Fun.(*ast.SelectorExpr)
				e.call.Fun = &ast.Ident{NamePos: fun.Sel.NamePos, Name: cv.OldName}
				args := e.call.Args
				e.call.Args = append(args[:cv.K:cv.K], append([]ast.Expr{e.recv}, args[cv.K:]...)...)
				in.dirty[uses[i].file] = true
			}
			in.res.Undone = append(in.res.Undone, fmt.Sprintf("method %s spelled as the function %s again (%d call site(s))", cv.New.FullName(), cv.OldName, len(edits)))
			continue
		}
		// function -> method: calls f(args) become (args[K]).m(rest)
		for _, u := range uses {
			if _, isId := u.call.Fun.(*ast.Ident); !isId || len(u.call.Args) != sig.Params().Len() || u.call.Ellipsis.IsValid() && cv.K == len(u.call.Args)-1 {
				ok = false
			}
		}
		if !ok || decl.Recv != nil {
			continue
		}
		params := flatten(decl.Type.Params)
		if cv.K >= len(params) {
			continue
		}
		rf := params[cv.K]
		if _, isEll := rf.Type.(*ast.Ellipsis); isEll {
			continue
		}
		decl.Type.Params.List = append(params[:cv.K:cv.K], params[cv.K+1:]...)
		decl.Recv = &ast.FieldList{List: []*ast.Field{rf}}
		decl.Name = &ast.Ident{NamePos: decl.Name.NamePos, Name: cv.OldName}
		in.dirty[file] = true
		for _, u := range uses {
			id := u.call.Fun.(*ast.Ident)
			args := u.call.Args
			u.call.Fun = &ast.SelectorExpr{X: paren(args[cv.K]), Sel: &ast.Ident{NamePos: id.NamePos, Name: cv.OldName}}
			u.call.Args = append(args[:cv.K:cv.K], args[cv.K+1:]...)
			in.dirty[u.file] = true
		}
		in.res.Undone = append(in.res.Undone, fmt.Sprintf("function %s spelled as the method %s again (%d call site(s))", cv.New.FullName(), cv.OldName, len(uses)))
	}
}

func paren(e ast.Expr) ast.Expr {
	switch e.(type) {
	case *ast.Ident, *ast.SelectorExpr, *ast.CallExpr, *ast.IndexExpr, *ast.ParenExpr:
		return e
	}
	return &ast.ParenExpr{X: e}
}

// flatten gives every parameter its own field.
func flatten(fl *ast.FieldList) []*ast.Field {
	var out []*ast.Field
	if fl == nil {
		return nil
	}
	for _, f := range fl.List {
		if len(f.Names) <= 1 {
			out = append(out, f)
			continue
		}
		for i, n := range f.Names {
			t := f.Type
			if i > 0 {
				t = cloneNode(f.Type, func(_, _ *ast.Ident) {}).(ast.Expr)
			}
			out = append(out, &ast.Field{Names: []*ast.Ident{n}, Type: t})
		}
	}
	return out
}
