package inl

import (
	"fmt"
	"go/ast"
	"go/token"
	"go/types"

	"golang.org/x/tools/go/ast/astutil"
	"golang.org/x/tools/go/packages"
)

// normalizePointerStructs is the scalar replacement of normalizeLocalStructs
// for a struct that a function allocates once (`&T{..}`, T new relative to
// the pinned tree) and then knows under several pointer variables that are
// copies of each other: what a "method object" looks like once its
// constructor and its methods have been written out in the function they
// were extracted from,
//
//	var r0 *state                         var S_b *B; var S_txs txSet; ..
//	{ h := &state{b: b, txs: mk()}        S_b, S_txs = b, mk()
//	  r0 = h }
//	st := r0                         =>
//	.. st.txs[k] = v .. h.b ..            .. S_txs[k] = v .. S_b ..
//
// All the pointers denote the one object, so one variable per field, declared
// where the outermost of them was declared, stands for it; function literals
// that used the object through a pointer now capture those variables, which
// is how the state of the original function was shared with its closures in
// the pinned tree. Conditions: every use of every alias is a field selection,
// a copy to / from another alias, or `_ = p`; exactly one allocation, outside
// any loop and function literal; the scope of the alias declared first
// encloses the others.
func (in *inliner) normalizePointerStructs(pkgs []*packages.Package, excluded func(string) bool) {
	for _, pk := range pkgs {
		for _, f := range pk.Syntax {
			if excluded(in.fset.Position(f.Pos()).Filename) {
				continue
			}
			n := &normCtx{in: in, pkg: pk, file: f}
			for _, d := range f.Decls {
				if fd, ok := d.(*ast.FuncDecl); ok && fd.Body != nil {
					for round := 0; round < 6 && n.sroaPtr(fd); round++ {
					}
				}
			}
		}
	}
}

// sroaPtr rewrites one alias class of fd; reports whether it did.
func (n *normCtx) sroaPtr(fd *ast.FuncDecl) bool {
	pk := n.pkg
	newStructPtr := func(t types.Type) (*types.Named, *types.Struct) {
		p, ok := t.(*types.Pointer)
		if !ok {
			return nil, nil
		}
		named, ok := p.Elem().(*types.Named)
		if !ok || named.Obj().Pkg() != pk.Types || named.TypeArgs().Len() > 0 || named.Obj().Exported() {
			return nil, nil
		}
		st, ok := named.Underlying().(*types.Struct)
		if !ok || BaselineType(pk.PkgPath, named.Obj().Name()) {
			return nil, nil
		}
		for i := 0; i < st.NumFields(); i++ {
			if st.Field(i).Embedded() {
				return nil, nil
			}
		}
		return named, st
	}
	// union-find over the pointer variables
	parent := map[*types.Var]*types.Var{}
	var find func(v *types.Var) *types.Var
	find = func(v *types.Var) *types.Var {
		if parent[v] == nil {
			parent[v] = v
		}
		if parent[v] != v {
			parent[v] = find(parent[v])
		}
		return parent[v]
	}
	union := func(a, b *types.Var) { parent[find(a)] = find(b) }
	type stmtInfo struct {
		kind  string // "decl" (var p *T), "alloc" (p := &T{} / p = &T{}), "copy" (p := q / p = q), "blank"
		v     *types.Var
		src   *types.Var
		lit   *ast.CompositeLit
		inLit bool // inside a loop or function literal
	}
	stmts := map[ast.Stmt]*stmtInfo{}
	okUse := map[*ast.Ident]bool{}
	isCand := func(v *types.Var) bool {
		if v == nil || v.IsField() || v.Parent() == nil || v.Parent() == pk.Types.Scope() {
			return false
		}
		named, _ := newStructPtr(v.Type())
		return named != nil
	}
	keyed := func(lit *ast.CompositeLit) bool {
		for _, e := range lit.Elts {
			kv, ok := e.(*ast.KeyValueExpr)
			if !ok {
				return false
			}
			if _, ok := kv.Key.(*ast.Ident); !ok {
				return false
			}
		}
		return true
	}
	var walk func(node ast.Node, nested bool)
	walk = func(node ast.Node, nested bool) {
		ast.Inspect(node, func(x ast.Node) bool {
			switch s := x.(type) {
			case *ast.FuncLit:
				if x != node {
					walk(s.Body, true)
					return false
				}
			case *ast.ForStmt:
				if x != node {
					if s.Init != nil {
						walk(s.Init, nested)
					}
					walk(s.Body, true)
					return false
				}
			case *ast.RangeStmt:
				if x != node {
					walk(s.Body, true)
					return false
				}
			case *ast.DeclStmt:
				gd, ok := s.Decl.(*ast.GenDecl)
				if !ok || gd.Tok != token.VAR || len(gd.Specs) != 1 {
					return true
				}
				vs := gd.Specs[0].(*ast.ValueSpec)
				if len(vs.Names) != 1 || vs.Names[0].Name == "_" || len(vs.Values) > 1 {
					return true
				}
				v, _ := pk.TypesInfo.Defs[vs.Names[0]].(*types.Var)
				if !isCand(v) {
					return true
				}
				if len(vs.Values) == 0 {
					stmts[s] = &stmtInfo{kind: "decl", v: v, inLit: nested}
					find(v)
					return true
				}
				// var p *T = q
				if r, ok := vs.Values[0].(*ast.Ident); ok {
					if src, _ := pk.TypesInfo.Uses[r].(*types.Var); isCand(src) && types.Identical(src.Type(), v.Type()) {
						stmts[s] = &stmtInfo{kind: "copy", v: v, src: src, inLit: nested}
						okUse[r] = true
						union(v, src)
					}
				}
			case *ast.AssignStmt:
				if len(s.Lhs) != 1 || len(s.Rhs) != 1 {
					return true
				}
				lid, ok := s.Lhs[0].(*ast.Ident)
				if !ok {
					return true
				}
				if lid.Name == "_" && s.Tok == token.ASSIGN {
					if r, ok := s.Rhs[0].(*ast.Ident); ok {
						if rv, _ := pk.TypesInfo.Uses[r].(*types.Var); isCand(rv) {
							stmts[s] = &stmtInfo{kind: "blank", v: rv}
							okUse[r] = true
						}
					}
					return true
				}
				var lv *types.Var
				switch s.Tok {
				case token.DEFINE:
					lv, _ = pk.TypesInfo.Defs[lid].(*types.Var)
				case token.ASSIGN:
					lv, _ = pk.TypesInfo.Uses[lid].(*types.Var)
				}
				if !isCand(lv) {
					return true
				}
				switch r := s.Rhs[0].(type) {
				case *ast.Ident:
					if src, _ := pk.TypesInfo.Uses[r].(*types.Var); isCand(src) && types.Identical(src.Type(), lv.Type()) {
						stmts[s] = &stmtInfo{kind: "copy", v: lv, src: src, inLit: nested}
						okUse[r] = true
						if s.Tok == token.ASSIGN {
							okUse[lid] = true
						}
						union(lv, src)
					}
				case *ast.UnaryExpr:
					lit, isLit := r.X.(*ast.CompositeLit)
					if r.Op == token.AND && isLit && keyed(lit) && types.Identical(pk.TypesInfo.TypeOf(r), lv.Type()) {
						stmts[s] = &stmtInfo{kind: "alloc", v: lv, lit: lit, inLit: nested}
						if s.Tok == token.ASSIGN {
							okUse[lid] = true
						}
						find(lv)
					}
				}
			}
			return true
		})
	}
	walk(fd.Body, false)
	if len(parent) == 0 {
		return false
	}
	// classes
	classes := map[*types.Var][]*types.Var{}
	for v := range parent {
		classes[find(v)] = append(classes[find(v)], v)
	}
	// every use of a member is a field selection or one of the forms above
	bad := map[*types.Var]bool{}
	selX := map[*ast.Ident]*ast.SelectorExpr{}
	ast.Inspect(fd.Body, func(x ast.Node) bool {
		if se, ok := x.(*ast.SelectorExpr); ok {
			if id, ok := se.X.(*ast.Ident); ok {
				selX[id] = se
			}
		}
		return true
	})
	ast.Inspect(fd.Body, func(x ast.Node) bool {
		id, ok := x.(*ast.Ident)
		if !ok {
			return true
		}
		v, _ := pk.TypesInfo.Uses[id].(*types.Var)
		if v == nil || parent[v] == nil || okUse[id] {
			return true
		}
		se := selX[id]
		if se == nil {
			bad[find(v)] = true
			return true
		}
		sel := pk.TypesInfo.Selections[se]
		if sel == nil || sel.Kind() != types.FieldVal || len(sel.Index()) != 1 {
			bad[find(v)] = true
		}
		return true
	})
	// parameters and results of fd are not locals
	if fd.Type.Params != nil {
		for _, fl := range fd.Type.Params.List {
			for _, nm := range fl.Names {
				if v, _ := pk.TypesInfo.Defs[nm].(*types.Var); v != nil && parent[v] != nil {
					bad[find(v)] = true
				}
			}
		}
	}
	q := &qualifier{pk: pk, file: n.file}
	for root, members := range classes {
		if bad[root] || len(members) < 2 {
			// (a single pointer with a literal is what normalizeLocalStructs handles)
			continue
		}
		// one allocation, outside loops and literals; every member declared
		// by one of the tabled statements
		var alloc ast.Stmt
		nAlloc := 0
		declared := map[*types.Var]ast.Stmt{}
		okClass := true
		inClass := func(v *types.Var) bool { return v != nil && parent[v] != nil && find(v) == root }
		for st, si := range stmts {
			if !inClass(si.v) {
				continue
			}
			switch si.kind {
			case "alloc":
				nAlloc++
				alloc = st
				if si.inLit {
					okClass = false
				}
				if as := st.(*ast.AssignStmt); as.Tok == token.DEFINE {
					declared[si.v] = st
				}
			case "decl":
				declared[si.v] = st
			case "copy":
				if as, isAs := st.(*ast.AssignStmt); !isAs || as.Tok == token.DEFINE {
					declared[si.v] = st
				}
			}
		}
		for _, m := range members {
			if declared[m] == nil {
				okClass = false
			}
		}
		if !okClass || nAlloc != 1 {
			continue
		}
		// the member declared first, whose scope encloses the others
		var first *types.Var
		for _, m := range members {
			if first == nil || declared[m].Pos() < declared[first].Pos() {
				first = m
			}
		}
		for _, m := range members {
			enc := false
			for s := m.Parent(); s != nil; s = s.Parent() {
				if s == first.Parent() {
					enc = true
				}
			}
			if !enc {
				okClass = false
			}
		}
		// ... and nothing of the class lives in a function literal's own scope
		// while the first is outside it (covered by the enclosure test)
		if !okClass {
			continue
		}
		_, st := newStructPtr(first.Type())
		n.in.nfresh++
		prefix := fmt.Sprintf("inlP%d_%s_", n.in.nfresh, first.Name())
		names := map[string]string{}
		var decls []ast.Stmt
		pos := declared[first].Pos()
		typeOK := true
		for i := 0; i < st.NumFields(); i++ {
			f := st.Field(i)
			te, ok := parseTypeExpr(types.TypeString(f.Type(), q.qual))
			if !ok || q.failed {
				typeOK = false
				break
			}
			// names of the type hidden by a local of the function: give up
			hidden := false
			ast.Inspect(te, func(x ast.Node) bool {
				if _, isSel := x.(*ast.SelectorExpr); isSel {
					return false
				}
				if id, ok := x.(*ast.Ident); ok {
					ast.Inspect(fd, func(y ast.Node) bool {
						if d, ok := y.(*ast.Ident); ok && d.Name == id.Name {
							if obj := pk.TypesInfo.Defs[d]; obj != nil {
								if _, isType := obj.(*types.TypeName); !isType {
									hidden = true
								}
							}
						}
						return !hidden
					})
				}
				return true
			})
			if hidden {
				typeOK = false
				break
			}
			local := prefix + f.Name()
			names[f.Name()] = local
			decls = append(decls, &ast.DeclStmt{Decl: &ast.GenDecl{TokPos: pos, Tok: token.VAR, Specs: []ast.Spec{&ast.ValueSpec{Names: []*ast.Ident{{NamePos: pos, Name: local}}, Type: te}}}})
			decls = append(decls, &ast.AssignStmt{Lhs: []ast.Expr{&ast.Ident{NamePos: pos, Name: "_"}}, TokPos: pos, Tok: token.ASSIGN, Rhs: []ast.Expr{&ast.Ident{NamePos: pos, Name: local}}})
		}
		if !typeOK {
			continue
		}
		// the allocation: all fields assigned, the given ones in the order written
		si := stmts[alloc]
		apos := alloc.Pos()
		given := map[string]bool{}
		var lhs, rhs []ast.Expr
		for _, e := range si.lit.Elts {
			kv := e.(*ast.KeyValueExpr)
			name := kv.Key.(*ast.Ident).Name
			given[name] = true
			lhs = append(lhs, &ast.Ident{NamePos: apos, Name: names[name]})
			rhs = append(rhs, kv.Value)
		}
		for i := 0; i < st.NumFields(); i++ {
			f := st.Field(i)
			if given[f.Name()] {
				continue
			}
			lhs = append(lhs, &ast.Ident{NamePos: apos, Name: names[f.Name()]})
			switch f.Type().Underlying().(type) {
			case *types.Pointer, *types.Interface, *types.Slice, *types.Map, *types.Chan, *types.Signature:
				rhs = append(rhs, &ast.Ident{NamePos: apos, Name: "nil"})
			default:
				te, _ := parseTypeExpr(types.TypeString(f.Type(), q.qual))
				rhs = append(rhs, &ast.StarExpr{Star: apos, X: &ast.CallExpr{Fun: &ast.Ident{NamePos: apos, Name: "new"}, Lparen: apos, Args: []ast.Expr{te}, Rparen: apos}})
			}
		}
		repl := map[ast.Stmt][]ast.Stmt{}
		for st2, si2 := range stmts {
			if !inClass(si2.v) {
				continue
			}
			repl[st2] = []ast.Stmt{}
		}
		allocStmt := []ast.Stmt{&ast.AssignStmt{Lhs: lhs, TokPos: apos, Tok: token.ASSIGN, Rhs: rhs}}
		if declared[first] == alloc {
			repl[alloc] = append(append([]ast.Stmt{}, decls...), allocStmt...)
		} else {
			repl[declared[first]] = decls
			repl[alloc] = allocStmt
		}
		selRepl := func(cur *astutil.Cursor) bool {
			if x, ok := cur.Node().(*ast.SelectorExpr); ok {
				if id, ok := x.X.(*ast.Ident); ok {
					if v, _ := pk.TypesInfo.Uses[id].(*types.Var); inClass(v) {
						if local, ok := names[x.Sel.Name]; ok {
							cur.Replace(&ast.Ident{NamePos: x.Pos(), Name: local})
							return false
						}
					}
				}
			}
			return true
		}
		astutil.Apply(fd.Body, selRepl, nil)
		for _, list := range repl {
			for _, s := range list {
				astutil.Apply(s, selRepl, nil)
			}
		}
		var fix func(list []ast.Stmt) []ast.Stmt
		fix = func(list []ast.Stmt) []ast.Stmt {
			var out []ast.Stmt
			for _, s := range list {
				if r, ok := repl[s]; ok {
					out = append(out, r...)
					continue
				}
				out = append(out, s)
			}
			return out
		}
		ast.Inspect(fd.Body, func(x ast.Node) bool {
			switch b := x.(type) {
			case *ast.BlockStmt:
				b.List = fix(b.List)
			case *ast.CaseClause:
				b.Body = fix(b.Body)
			case *ast.CommClause:
				b.Body = fix(b.Body)
			}
			return true
		})
		n.in.dirty[n.file] = true
		n.in.res.Normalized = append(n.in.res.Normalized, fmt.Sprintf("%d pointers to the one %s allocated in %s replaced by one variable per field", len(members), first.Type().String(), fd.Name.Name))
		// (type information of the rewritten statements is stale now: one
		// class per call; the next round sees the rest)
		return false
	}
	return false
}
