package inl

import (
	"fmt"
	"go/ast"
	"go/token"
	"go/types"
	"strings"

	"golang.org/x/tools/go/ast/astutil"
	"golang.org/x/tools/go/packages"
)

// ModulePath is the import path prefix of the analysed module's packages.
var ModulePath = "github.com/lightninglabs/neutrino"

// normalizeErrorsIs spells `errors.Is(err, Sentinel)` as `(err == Sentinel)`
// where Sentinel is a package-level error variable of the analysed module
// itself. The pinned tree compares its own sentinels by identity and nothing
// in it wraps them, so on every error the module produces the two forms take
// the same branch; the rules that reason about "the error is this sentinel"
// edges then see one form only. Sentinels of other modules and of the standard
// library (io.EOF in particular, where matching a wrapped error IS the
// difference a rule looks for) are left as written.
func (in *inliner) normalizeErrorsIs(pkgs []*packages.Package, excluded func(string) bool) {
	for _, pk := range pkgs {
		for _, f := range pk.Syntax {
			if excluded(in.fset.Position(f.Pos()).Filename) {
				continue
			}
			file := f
			astutil.Apply(f, func(c *astutil.Cursor) bool {
				call, ok := c.Node().(*ast.CallExpr)
				if !ok || len(call.Args) != 2 || call.Ellipsis.IsValid() {
					return true
				}
				sel, ok := call.Fun.(*ast.SelectorExpr)
				if !ok || sel.Sel.Name != "Is" {
					return true
				}
				fn, _ := pk.TypesInfo.Uses[sel.Sel].(*types.Func)
				if fn == nil || fn.Pkg() == nil || fn.Pkg().Path() != "errors" {
					return true
				}
				var id *ast.Ident
				switch t := call.Args[1].(type) {
				case *ast.Ident:
					id = t
				case *ast.SelectorExpr:
					id = t.Sel
				}
				if id == nil {
					return true
				}
				v, _ := pk.TypesInfo.Uses[id].(*types.Var)
				if v == nil || v.Pkg() == nil || v.Parent() != v.Pkg().Scope() ||
					!(v.Pkg().Path() == ModulePath || strings.HasPrefix(v.Pkg().Path(), ModulePath+"/")) {
					return true
				}
				if _, isExpr := c.Parent().(ast.Expr); !isExpr {
					switch c.Parent().(type) {
					case *ast.IfStmt, *ast.CaseClause, *ast.AssignStmt, *ast.ReturnStmt, *ast.ValueSpec, *ast.ForStmt:
					default:
						return true
					}
				}
				pos := call.Pos()
				c.Replace(&ast.ParenExpr{Lparen: pos, X: &ast.BinaryExpr{X: call.Args[0], OpPos: pos, Op: token.EQL, Y: call.Args[1]}, Rparen: call.End()})
				in.dirty[file] = true
				in.res.Normalized = append(in.res.Normalized, fmt.Sprintf("errors.Is(.., %s) at %s spelled as == (a sentinel of the module itself)", id.Name, in.fset.Position(pos)))
				return true
			}, nil)
		}
	}
}
