// nvet decides the structural (mechanism) clauses of the neutrino properties
// by static analysis of /repo's current source. Nothing of /repo is executed.
package main

import (
	"flag"
	"fmt"
	"go/ast"
	"go/types"
	"os"
	"path/filepath"
	"sort"
	"strconv"
	"strings"
	"time"

	"golang.org/x/tools/go/ssa"
	"verif/checker/internal/base"
	"verif/checker/internal/inl"

	"verif/checker/internal/ir"
	"verif/checker/internal/report"
	"verif/checker/internal/rules"
)

func main() {
	prop := flag.String("prop", "", "property id (C01..C19), or 'all'")
	tier := flag.String("tier", "quick", "quick|thorough")
	repo := flag.String("repo", "/repo", "repository root")
	verif := flag.String("verif", "/verif", "verif directory (evidence/, replay/, known_findings.json)")
	list := flag.Bool("list", false, "list obligations")
	dump := flag.String("dump", "", "dump SSA of the named function and exit")
	listSyms := flag.Bool("list-symbols", false, "print the symbol table of the module packages and exit (regenerates internal/base/baseline_symbols.txt)")
	listFuncs := flag.Bool("list-funcs", false, "print the baseline keys of every declared module function and exit (regenerates internal/inl/baseline_funcs.txt)")
	inlineAll := flag.Bool("inline-all", false, "self-test of the inliner: treat every function as new")
	noInline := flag.Bool("no-inline", false, "do not inline functions that are new relative to the pinned tree")
	showSrc := flag.Bool("show-inlined", false, "print the rewritten source files and exit")
	flag.Parse()
	if *tier != "quick" && *tier != "thorough" {
		fmt.Println("CHECK-BROKEN bad tier")
		os.Exit(2)
	}
	var seed int64
	if s := os.Getenv("VERIF_SEED"); s != "" {
		seed, _ = strconv.ParseInt(s, 10, 64)
	}
	var ids []string
	if *prop == "all" {
		for id := range rules.Registry {
			ids = append(ids, id)
		}
		sort.Strings(ids)
	} else if *dump == "" && !*listFuncs && !*showSrc && !*listSyms {
		for _, id := range strings.Split(*prop, ",") {
			if _, ok := rules.Registry[id]; !ok {
				fmt.Printf("CHECK-BROKEN unknown property %q\n", id)
				os.Exit(2)
			}
			ids = append(ids, id)
		}
	}
	t0 := time.Now()
	p, err := ir.Load(*repo)
	if err != nil {
		fmt.Printf("CHECK-BROKEN cannot analyse %s: %v\n", *repo, err)
		os.Exit(2)
	}
	if *listSyms {
		fmt.Print(base.Generate(p.Mod, ir.ExcludedFile))
		fmt.Print(base.Generate(p.Cache.Mod, ir.ExcludedFile))
		os.Exit(0)
	}
	baseSyms := base.Load()
	inl.BaselineType = func(pkgPath, name string) bool {
		if _, ok := baseSyms.Types[pkgPath][name]; ok {
			return true
		}
		if _, ok := baseSyms.Fields[pkgPath][name]; ok {
			return true
		}
		for _, pr := range []*ir.Program{p, p.Cache} {
			if pr != nil && pr.Ren != nil && pr.Ren.TypeRev[pkgPath+"."+name] != "" {
				return true
			}
		}
		return false
	}
	var renameNotes []string
	for _, pr := range []*ir.Program{p, p.Cache} {
		if pr.Ren == nil {
			continue
		}
		renameNotes = append(renameNotes, pr.Ren.Notes...)
		for _, cv := range pr.Ren.Conv {
			inl.Conversions = append(inl.Conversions, inl.Conversion{OldName: cv.OldName, OldIsMethod: cv.OldIsMethod, New: cv.New, K: cv.K})
		}
		for _, m := range []map[string]*types.Func{pr.Ren.Func, pr.Ren.Method} {
			for _, obj := range m {
				inl.Renamed[funcKey(obj)] = true
			}
		}
		// every method of a renamed type is a baseline method
		for _, pk := range pr.Mod {
			for _, name := range pk.Types.Scope().Names() {
				tn, ok := pk.Types.Scope().Lookup(name).(*types.TypeName)
				if !ok || pr.Ren.TypeRev[pk.PkgPath+"."+name] == "" {
					continue
				}
				if n, ok := tn.Type().(*types.Named); ok {
					for i := 0; i < n.NumMethods(); i++ {
						inl.Renamed[funcKey(n.Method(i))] = true
					}
				}
			}
		}
	}
	if *listFuncs {
		var names []string
		for _, pr := range []*ir.Program{p, p.Cache} {
			for _, pk := range pr.Mod {
				for _, f := range pk.Syntax {
					if ir.ExcludedFile(pr.Fset.Position(f.Pos()).Filename) {
						continue
					}
					for _, d := range f.Decls {
						if fd, ok := d.(*ast.FuncDecl); ok {
							names = append(names, inl.FuncName(pk.PkgPath, fd))
						}
					}
				}
			}
			names = append(names, inl.LocalClosures(pr.Mod, ir.ExcludedFile)...)
		}
		sort.Strings(names)
		for _, n := range names {
			fmt.Println(n)
		}
		os.Exit(0)
	}
	var inlined, keptNew, newFuncs, undone []string
	inlineNote := ""
	if *inlineAll {
		inl.TreatAllAsNew = true
	}
	if !*noInline {
		overlay := map[string][]byte{}
		for _, pr := range []*ir.Program{p, p.Cache} {
			tr := inl.Transform(pr.Mod, ir.ExcludedFile)
			for k, v := range tr.Overlay {
				overlay[k] = v
			}
			inlined = append(inlined, tr.Inlined...)
			keptNew = append(keptNew, tr.Kept...)
			newFuncs = append(newFuncs, tr.New...)
			undone = append(undone, tr.Undone...)
			undone = append(undone, tr.Normalized...)
		}
		if *showSrc && len(overlay) == 0 {
			os.Exit(0)
		}
		if len(overlay) > 0 {
			p2, err2 := ir.LoadOverlay(*repo, overlay)
			if err2 != nil {
				inlineNote = "inlining of new helper functions was abandoned (the rewritten source did not load: " + err2.Error() + "); the tree was analysed as written"
				inlined = nil
				if *showSrc {
					fmt.Fprintln(os.Stderr, inlineNote)
					for k, v := range overlay {
						fmt.Printf("==== %s\n%s\n", k, v)
					}
					os.Exit(0)
				}
			} else {
				p = p2
				// further rounds: what the first round wrote out (function
				// literals that were arguments of an inlined helper, now local
				// closures; calls inside inlined bodies) may be inlinable now
				for round := 2; round <= 4; round++ {
					inl.OwnLineDirectives = true
					more := map[string][]byte{}
					var kept2, inl2 []string
					for _, pr := range []*ir.Program{p, p.Cache} {
						tr := inl.Transform(pr.Mod, ir.ExcludedFile)
						for k, v := range tr.Overlay {
							more[k] = v
						}
						kept2 = append(kept2, tr.Kept...)
						inl2 = append(inl2, tr.Inlined...)
					}
					if os.Getenv("NVET_DEBUG_INL") != "" {
						fmt.Fprintf(os.Stderr, "round %d: %d files rewritten, %d inlined, kept: %v\n", round, len(more), len(inl2), kept2)
					}
					if len(more) == 0 {
						break
					}
					merged := map[string][]byte{}
					for k, v := range overlay {
						merged[k] = v
					}
					for k, v := range more {
						merged[k] = v
					}
					p3, err3 := ir.LoadOverlay(*repo, merged)
					if err3 != nil {
						if os.Getenv("NVET_DEBUG_INL") != "" {
							fmt.Fprintf(os.Stderr, "round %d load failed: %v\n", round, err3)
							for k, v := range more {
								os.WriteFile("/tmp/nvet_failed_"+filepath.Base(k), v, 0o644)
							}
						}
						inlineNote = fmt.Sprintf("inlining round %d was abandoned (the rewritten source did not load: %v); the result of the previous round was analysed", round, err3)
						break
					}
					p, overlay = p3, merged
					keptNew = kept2
					inlined = append(inlined, inl2...)
				}
				if *showSrc {
					for k, v := range overlay {
						fmt.Printf("==== %s\n%s\n", k, v)
					}
					os.Exit(0)
				}
			}
		}
	}
	loadS := time.Since(t0).Seconds()
	if *dump != "" {
		fn := p.Func(*dump)
		if fn == nil {
			fn = p.Cache.Func(*dump)
		}
		if fn == nil {
			for _, f := range p.Cache.Funcs {
				if strings.Contains(p.Cache.Name(f), *dump) {
					fmt.Println("[cache] " + p.Cache.Name(f))
				}
			}
			for _, f := range p.Funcs {
				if strings.Contains(p.Name(f), *dump) {
					fmt.Println(p.Name(f))
				}
			}
			os.Exit(0)
		}
		fn.WriteTo(os.Stdout)
		os.Exit(0)
	}
	known, err := report.LoadKnown(*verif + "/known_findings.json")
	if err != nil {
		fmt.Printf("CHECK-BROKEN known_findings.json: %v\n", err)
		os.Exit(2)
	}
	exit := 0
	for _, id := range ids {
		pr := rules.Registry[id]
		run := report.NewRun(id, *tier, seed)
		if len(ids) == 1 {
			run.Start = t0
		}
		run.Packages = len(p.Mod) + len(p.Cache.Mod)
		run.FuncsTotal = len(p.Funcs) + len(p.Cache.Funcs)
		run.NotDecided = pr.NotDecided
		run.Extra["load_and_ssa_build_s"] = loadS
		if len(newFuncs) > 0 {
			run.Extra["functions_new_relative_to_pinned_tree"] = newFuncs
			run.Extra["new_function_calls_inlined_before_analysis"] = inlined
			run.Extra["new_functions_not_inlined"] = keptNew
		}
		if len(renameNotes) > 0 {
			run.Extra["baseline_symbols_renamed_in_this_tree"] = renameNotes
		}
		if len(undone) > 0 {
			run.Extra["source_normalisations_before_analysis"] = undone
		}
		if inlineNote != "" {
			run.Extra["inlining_note"] = inlineNote
		}
		if seams := ir.AliasSummary(func(f *ssa.Function) string { return f.String() }); len(seams) > 0 {
			sort.Strings(seams)
			run.Extra["function_value_seams_resolved_to_one_function"] = seams
		}
		run.Assumptions = rules.Assumptions
		c := &rules.Ctx{P: p, R: run, Tier: *tier}
		c.Run(pr)
		if *list {
			for _, o := range run.Obs {
				fmt.Printf("  %-10s %-11s %s  %s\n      %s\n", o.Rule, o.Status, o.Pos, o.Construct, o.Detail)
			}
		}
		if e := run.Finish(*verif, known); e > exit {
			exit = e
		}
	}
	os.Exit(exit)
}

// funcKey is inl.FuncName for a types.Func.
func funcKey(obj *types.Func) string {
	sig := obj.Type().(*types.Signature)
	if sig.Recv() == nil {
		return obj.Pkg().Path() + "." + obj.Name()
	}
	t := sig.Recv().Type()
	ptr := false
	if p, ok := t.(*types.Pointer); ok {
		ptr = true
		t = p.Elem()
	}
	name := "?"
	if n, ok := t.(*types.Named); ok {
		name = n.Obj().Name()
		if n.TypeParams().Len() > 0 {
			name += "[]"
		}
	}
	if ptr {
		return obj.Pkg().Path() + ".(*" + name + ")." + obj.Name()
	}
	return obj.Pkg().Path() + ".(" + name + ")." + obj.Name()
}
