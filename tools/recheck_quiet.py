#!/usr/bin/env python3
"""Re-applies every kept behaviour-preserving refactoring (quiet/*/patch.diff)
to a scratch copy of /repo and checks that no check reports anything."""
import json, glob, os, subprocess, tempfile, shutil, re, sys, concurrent.futures as cf
V = '/verif'
out = subprocess.run(["sh", "-c", ". %s/env.sh; env" % V], capture_output=True, text=True).stdout
ENV = dict(l.split("=", 1) for l in out.splitlines() if "=" in l)
def one(d):
    w = tempfile.mkdtemp(prefix="requiet-"); v = tempfile.mkdtemp(prefix="requietv-")
    try:
        subprocess.run(["rsync", "-a", "--exclude", ".git", "/repo/", w + "/"], check=True)
        subprocess.run(["git", "init", "-q", "."], cwd=w, capture_output=True)
        a = subprocess.run(["git", "apply", "--whitespace=nowarn", d + "/patch.diff"], cwd=w, capture_output=True, text=True)
        if a.returncode != 0:
            return os.path.basename(d), "STALE-PATCH", a.stderr[-200:]
        b = subprocess.run(["go", "build", "./..."], cwd=w, env=ENV, capture_output=True, text=True)
        if b.returncode != 0:
            return os.path.basename(d), "NOBUILD", b.stderr[-300:]
        shutil.copy(V + "/known_findings.json", v)
        r = subprocess.run([os.environ.get("NVET_BIN", V + "/bin/nvet"), "-prop", "all", "-repo", w, "-verif", v], env=ENV, capture_output=True, text=True)
        rules = sorted(set(re.findall(r"^(?:VIOLATION|UNDECIDED): \S+ (\S+) ", r.stdout, re.M)))
        return os.path.basename(d), "OK" if not rules and r.returncode == 0 else "FALSE-ALARM", " ".join(rules)
    finally:
        shutil.rmtree(w, ignore_errors=True); shutil.rmtree(v, ignore_errors=True)
dirs = sorted(glob.glob(V + "/quiet/*/"))
bad = 0
with cf.ThreadPoolExecutor(6) as ex:
    for id_, st, det in ex.map(lambda d: one(d.rstrip('/')), dirs):
        print("%-12s %-6s %s" % (st, id_, det))
        bad += st != "OK"
print(len(dirs), "refactorings,", bad, "not OK")
sys.exit(1 if bad else 0)
