#!/usr/bin/env python3
"""Regenerates Appendix G of DESIGN.md from quiet/*/meta.json."""
import json, glob
rows=[]
for d in sorted(glob.glob('/verif/quiet/*/meta.json')):
    m=json.load(open(d))
    rows.append("| `%s` | %s | %s | %s |" % (m['id'], m['area'].replace('|','/'), m['false_alarms_when_first_run'], m['false_alarms_now']))
tbl="""## Appendix G — behaviour-preserving refactorings and the checks that (no longer) report them

Each row is a clean-up refactoring produced by a sub-agent that was given only
an area of the code and the instruction to preserve behaviour exactly (extract
/ inline helpers, rename, if<->switch, inverted conditions, range<->index
loops, early returns ...), kept under `quiet/<id>/` (patch.diff, NOTES.md,
meta.json). `tools/recheck_quiet.py` applies each to a scratch copy of /repo
and requires that no check reports anything. "first run" lists the rules that
raised a false alarm when the refactoring was first tried; every one of them
was a defect of the machinery and was removed by making the machinery more
general (never by special-casing the refactored text).

| id | area | false alarms at first run | now |
|---|---|---|---|
""" + "\n".join(rows) + "\n"
p='/verif/DESIGN.md'
s=open(p).read()
i=s.find('## Appendix G — behaviour-preserving refactorings')
j=s.find('## Appendix F — independently seeded changes')
if i>=0:
    # G precedes or follows F: cut it out
    k=s.find('\n## ', i+5)
    s=s[:i]+(s[k+1:] if k>=0 else '')
s=s.rstrip()+"\n\n"+tbl
open(p,'w').write(s)
print(len(rows),'rows')
