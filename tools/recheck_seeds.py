#!/usr/bin/env python3
"""Re-applies every kept seeded change (seeded/*/patch.diff) to a scratch copy
of /repo and checks that the rules recorded in meta.json still report it.
Static only: the demonstrations are not run here (tools/try_seed.sh does)."""
import json, glob, os, subprocess, tempfile, shutil, re, sys, concurrent.futures as cf
V = '/verif'
out = subprocess.run(["sh", "-c", ". %s/env.sh; env" % V], capture_output=True, text=True).stdout
ENV = dict(l.split("=", 1) for l in out.splitlines() if "=" in l)
def one(meta):
    m = json.load(open(meta)); d = os.path.dirname(meta)
    w = tempfile.mkdtemp(prefix="reseed-"); v = tempfile.mkdtemp(prefix="reseedv-")
    try:
        subprocess.run(["rsync", "-a", "--exclude", ".git", "/repo/", w + "/"], check=True)
        subprocess.run(["git", "init", "-q", "."], cwd=w, capture_output=True)
        a = subprocess.run(["git", "apply", "--whitespace=nowarn", d + "/patch.diff"], cwd=w, capture_output=True, text=True)
        if a.returncode != 0:
            return m["id"], "STALE-PATCH", a.stderr[-200:]
        shutil.copy(V + "/known_findings.json", v)
        r = subprocess.run([os.environ.get("NVET_BIN", V + "/bin/nvet"), "-prop", "all", "-repo", w, "-verif", v], env=ENV, capture_output=True, text=True)
        rules = sorted(set(re.findall(r"^(?:VIOLATION|UNDECIDED): \S+ (\S+) ", r.stdout, re.M)))
        want = m["checks"]["reported_now_by"]
        if m["checks"].get("known_unreported"):
            # kept for the record: no structural necessary condition separates it
            # from the pinned tree (see NOTES / DESIGN); flag it if that changes
            own = [x for x in rules if x.startswith(m["breaks_property"])]
            return m["id"], "OK" if not own else "NOW-REPORTED", "known unreported; got %s" % rules
        ok = all(x in rules for x in want) and any(x.startswith(m["breaks_property"]) for x in rules)
        return m["id"], "OK" if ok else "NOT-REPORTED", "want %s got %s" % (want, rules)
    finally:
        shutil.rmtree(w, ignore_errors=True); shutil.rmtree(v, ignore_errors=True)
metas = sorted(glob.glob(V + "/seeded/*/meta.json"))
bad = 0
with cf.ThreadPoolExecutor(6) as ex:
    for id_, st, det in ex.map(one, metas):
        print("%-14s %-8s %s" % (st, id_, det))
        bad += st != "OK"
print(len(metas), "seeds,", bad, "not OK")
sys.exit(1 if bad else 0)
