#!/usr/bin/env python3
"""For every "fixed:" entry of known_findings.json: takes the fix commit out of
a scratch copy of /repo again (git diff <c>^ <c> applied in reverse; never
/repo itself), checks that the copy still builds, and requires that the check
of the entry's property reports a violation ("a fixed entry suppresses
nothing: ... reports the violation again if it ever returns").
Static only. Exit 1 if a defect that came back is not reported."""
import json, os, subprocess, tempfile, shutil, re, sys, concurrent.futures as cf
V = '/verif'
out = subprocess.run(["sh", "-c", ". %s/env.sh; env" % V], capture_output=True, text=True).stdout
ENV = dict(l.split("=", 1) for l in out.splitlines() if "=" in l)
fixed = json.load(open(V + "/known_findings.json"))["fixed"]
ents = []
for e in fixed:
    m = re.match(r"fixed: property=(C\d\d) ([0-9a-f]{7,}) (.*)", e)
    if not m:
        print("UNPARSED", e); sys.exit(2)
    ents.append(m.groups())
def one(ent):
    prop, commit, what = ent
    w = tempfile.mkdtemp(prefix="refix-"); v = tempfile.mkdtemp(prefix="refixv-")
    try:
        subprocess.run(["rsync", "-a", "--exclude", ".git", "/repo/", w + "/"], check=True)
        subprocess.run(["git", "init", "-q", "."], cwd=w, capture_output=True)
        d = subprocess.run(["git", "-C", "/repo", "diff", commit + "^", commit, "--", ".", ":(exclude)*_test.go"],
                           capture_output=True, text=True).stdout
        a = subprocess.run(["git", "apply", "-R", "--3way", "--whitespace=nowarn"], input=d, cwd=w, capture_output=True, text=True)
        if a.returncode != 0:
            a = subprocess.run(["git", "apply", "-R", "--whitespace=nowarn"], input=d, cwd=w, capture_output=True, text=True)
        if a.returncode != 0:
            return prop, commit, "CANNOT-REVERT", a.stderr[-160:].replace("\n", " ")
        b = subprocess.run(["go", "build", "./..."], cwd=w, env=ENV, capture_output=True, text=True)
        if b.returncode == 0 and os.path.isdir(w + "/cache"):
            b = subprocess.run(["go", "build", "./..."], cwd=w + "/cache", env=ENV, capture_output=True, text=True)
        if b.returncode != 0:
            return prop, commit, "NO-BUILD", b.stderr[-160:].replace("\n", " ")
        shutil.copy(V + "/known_findings.json", v)
        r = subprocess.run([os.environ.get("NVET_BIN", V + "/bin/nvet"), "-prop", prop, "-repo", w, "-verif", v], env=ENV, capture_output=True, text=True)
        rules = sorted(set(re.findall(r"^(?:VIOLATION|UNDECIDED): \S+ (\S+) ", r.stdout, re.M)))
        line = "VIOLATION property=%s" % prop in r.stdout
        ok = r.returncode == 1 and line and any(x.startswith(prop) for x in rules)
        return prop, commit, "OK" if ok else "NOT-REPORTED", "exit %d rules %s" % (r.returncode, rules)
    finally:
        shutil.rmtree(w, ignore_errors=True); shutil.rmtree(v, ignore_errors=True)
bad = 0
with cf.ThreadPoolExecutor(6) as ex:
    for (prop, commit, st, det), ent in zip(ex.map(one, ents), ents):
        print("%-14s %s %s %s | %s" % (st, prop, commit, det, ent[2][:70]))
        bad += st != "OK"
print(len(ents), "fixed entries,", bad, "not OK")
sys.exit(1 if bad else 0)
