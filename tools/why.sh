#!/bin/sh
# usage: tools/why.sh <repo dir> [props] : every failing obligation with its detail
V=$(mktemp -d /tmp/why-XXXXXX); cp /verif/known_findings.json "$V/"
/verif/bin/nvet -prop "${2:-all}" -repo "$1" -verif "$V" >/dev/null 2>&1
python3 - "$V" <<'PY'
import json,sys,glob
for f in sorted(glob.glob(sys.argv[1]+'/replay/*.json')):
    o=json.load(open(f))['obligation']
    print(o['rule'],'|',o['construct'][:110]); print('     ',o['detail'][:int(__import__('os').environ.get('CUT','420'))])
PY
rm -rf "$V"
