#!/bin/sh
# usage: tools/try_seed.sh <dir with patch.diff and demo/> [demo test regexp] [pkg]
# Verifies a seeded change in a scratch copy of /repo (never /repo itself):
#  1. the demo passes on the unchanged copy, 2. the patch applies and builds,
#  3. the demo fails with the patch, 4. runs every check against the patched copy.
set -u
SRC="$1"; RUN="${2:-TestSeed}"; PKG="${3:-.}"
. /verif/env.sh
W=$(mktemp -d /tmp/tryseed-XXXXXX)
rsync -a --exclude .git /repo/ "$W/"
( cd "$SRC/demo" && find . -type f | while read f; do mkdir -p "$W/$(dirname "$f")"; cp "$f" "$W/$f"; done )
cd "$W"
echo "== demo on unchanged tree"
( cd "$W/$PKG" && go test ${SEED_GOTESTFLAGS:-} -vet=off -count=1 -run "$RUN" . 2>&1 | tail -3 )
echo "== apply patch"
git init -q . >/dev/null 2>&1
git apply --whitespace=nowarn "$SRC/patch.diff" || { echo "PATCH DOES NOT APPLY"; rm -rf "$W"; exit 3; }
go build ./... || { echo "BUILD FAILS"; rm -rf "$W"; exit 3; }
[ -d cache ] && ( cd cache && go build ./... )
echo "== demo with the change"
( cd "$W/$PKG" && go test ${SEED_GOTESTFLAGS:-} -vet=off -count=1 -run "$RUN" . 2>&1 | grep -E "^(--- FAIL|FAIL|ok|PASS)" | head -5 )
echo "== checks on the changed tree"
find "$W" -name 'zz_seed*_test.go' -delete
V=$(mktemp -d /tmp/tryseedv-XXXXXX); cp /verif/known_findings.json "$V/"
/verif/bin/nvet -prop all -repo "$W" -verif "$V" | grep -E "^(VIOLATION:|UNDECIDED:)" | cut -c1-420
rm -rf "$W" "$V"
