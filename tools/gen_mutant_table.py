#!/usr/bin/env python3
"""Regenerates the variant table of DESIGN.md §9.4 from selftest/mutants.py."""
import sys, re
sys.path.insert(0, '/verif/selftest')
from mutants import MUTANTS
rows = ["| variant | properties run | rule(s) that must (and do) report it |", "|---|---|---|"]
for m in MUTANTS:
    exp = ", ".join(m["expect"]) if m["expect"] else "quiet (must not fire)"
    rows.append("| `%s` | %s | %s |" % (m["name"], ", ".join(m["props"]), exp))
p = '/verif/DESIGN.md'
s = open(p).read()
a = s.index("| variant | properties run |")
b = s.index("\n\n", a)
s = s[:a] + "\n".join(rows) + s[b:]
open(p, 'w').write(s)
print(len(MUTANTS), "variants")
