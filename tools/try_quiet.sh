#!/bin/sh
# usage: tools/try_quiet.sh <ABS dir with patch.diff>
# Applies a behaviour-preserving refactoring to a scratch copy of /repo (never
# /repo itself), builds it and runs every check: any report is a false alarm
# (or the refactoring is not behaviour-preserving after all: read it).
set -u
SRC="$1"
. /verif/env.sh
W=$(mktemp -d /tmp/tryquiet-XXXXXX)
rsync -a --exclude .git /repo/ "$W/"
cd "$W"
git init -q . >/dev/null 2>&1
git apply --whitespace=nowarn "$SRC/patch.diff" || { echo "PATCH DOES NOT APPLY"; rm -rf "$W"; exit 3; }
go build ./... || { echo "BUILD FAILS"; rm -rf "$W"; exit 3; }
[ -d cache ] && ( cd cache && go build ./... ) || true
V=$(mktemp -d /tmp/tryquietv-XXXXXX); cp /verif/known_findings.json "$V/"
/verif/bin/nvet -prop all -repo "$W" -verif "$V" | grep -E "^(VIOLATION:|UNDECIDED:)" | cut -c1-${CUT:-420}
echo "== done"
rm -rf "$W" "$V"
