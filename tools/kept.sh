#!/bin/sh
# usage: tools/kept.sh <repo dir> : which new functions the source inliner left alone, and why
V=$(mktemp -d /tmp/kept-XXXXXX); cp /verif/known_findings.json "$V/"
/verif/bin/nvet -prop C16 -repo "$1" -verif "$V" >/dev/null
python3 - "$V/evidence/C16.json" <<'PY'
import json,sys
e=json.load(open(sys.argv[1]))
def find(d,k):
    if isinstance(d,dict):
        for a,b in d.items():
            if a==k: return b
            r=find(b,k)
            if r is not None: return r
    return None
for k in ['new_functions_not_inlined','inlining_note']:
    v=find(e,k)
    if v:
        for x in (v if isinstance(v,list) else [v]): print(k+':',x)
PY
rm -rf "$V"
