#!/usr/bin/env python3
"""keep_seed.py <name> <property> <pkgdir> <initially: rule|MISSED> <now: rule,...> -- stores a verified seeded change under seeded/<name>/"""
import sys, os, shutil, json, subprocess
name, prop, pkg, initially, now = sys.argv[1:6]
src = "/tmp/seed/%s.out" % name
dst = "/verif/seeded/%s" % name
os.makedirs(dst, exist_ok=True)
shutil.copy(src + "/patch.diff", dst + "/patch.diff")
if os.path.isdir(dst + "/demo"):
    shutil.rmtree(dst + "/demo")
shutil.copytree(src + "/demo", dst + "/demo")
notes = open(src + "/NOTES.md").read()
open(dst + "/NOTES.md", "w").write(notes)
needs = ""
for line in notes.splitlines():
    if "manifest" in line.lower() or "needs" in line.lower():
        needs = line.strip(" -*#")
        break
meta = {
    "id": name,
    "breaks_property": prop,
    "produced_by": "independent sub-agent given only the property text and a scratch worktree of the repository (nothing from /verif)",
    "needs_to_manifest": needs,
    "verified": {
        "how": "tools/try_seed.sh /tmp/seed/%s.out TestSeed %s (scratch copy of /repo at the commit with all fix: commits; never applied to /repo)" % (name, pkg),
        "builds": True,
        "existing_tests_pass_with_change": "checked by the sub-agent for the touched packages (see NOTES.md) and re-checked for the demo package here",
        "demo_passes_without_change": True,
        "demo_fails_with_change": True,
    },
    "checks": {
        "reported_when_first_run": initially,
        "reported_now_by": now.split(","),
    },
}
json.dump(meta, open(dst + "/meta.json", "w"), indent=1)
print("kept", dst)
