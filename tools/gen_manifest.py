#!/usr/bin/env python3
"""Regenerates /verif/MANIFEST.json from the table below (kept valid at all times)."""
import json, os, sys

HERE = os.path.dirname(os.path.dirname(os.path.abspath(__file__)))

# property id -> (technique, level text, level note, design ref)
CLAIMED = {}

def claim(pid, technique, text, note):
    CLAIMED[pid] = dict(technique=technique, text=text, note=note)

TRUST = ("Trusted base: go/packages+go/types+go/ssa (x/tools v0.29.0); the frozen rule tables in "
         "checker/internal/rules (confirmed by reading the pinned tree); the documented semantics of the btcd/btcwallet/lnd "
         "primitives the rules name. Decides structural necessary conditions (the mechanism clause) on every CFG path of the "
         "anchored functions; does NOT decide the behaviour over runtime histories. ")

exec(open(os.path.join(HERE, "tools", "claims.py")).read())

ALL = ["C%02d" % i for i in range(1, 20)]
NA = json.load(open(os.path.join(HERE, "tools", "not_applicable.json")))

checks = []
for pid in ALL:
    if pid not in CLAIMED:
        continue
    c = CLAIMED[pid]
    checks.append({
        "property_id": pid,
        "quick_cmd": "./check.sh %s quick" % pid,
        "thorough_cmd": "./check.sh %s thorough" % pid,
        "evidence_file": "/verif/evidence/%s.json" % pid,
        "replay_cmd_template": "cat {path}; ./check.sh %s thorough" % pid,
        "engine": "nvet",
        "level_claimed": {
            "category": "other",
            "text": c["text"],
            "design_ref": "DESIGN.md §5 (%s), §4 (engines)" % pid,
        },
        "level_note": TRUST + c["note"],
        "technique": c["technique"],
    })

na = [{"property_id": p, "reason": NA[p]} for p in ALL if p not in CLAIMED]
for p in ALL:
    if p not in CLAIMED and p not in NA:
        sys.exit("property %s neither claimed nor in not_applicable.json" % p)

manifest = {
    "version": 1,
    "setup_cmd": "cd /verif && . ./env.sh && mkdir -p bin evidence replay && cd checker && go build -o ../bin/nvet ./cmd/nvet",
    "hooks": {
        "guard": "verif",
        "enable": "none needed: static analysis reads /repo's working tree as the default build sees it (no build tag, no instrumentation)",
        "baseline_off_cmd": "for m in $(cat /w/out/gomods.txt); do MF=$(cd /repo/$m && . /w/out/goenv.sh && gomodflag); (cd /repo/$m && go test $MF -json -vet=off -count=1 -timeout 25m ./...); done",
        "source_commits": [],
        "add_only": True,
    },
    "engines": [{
        "name": "nvet",
        "path": "checker/cmd/nvet",
        "serves_properties": sorted(CLAIMED),
        "kind_free_text": "repository-specific static analyser over go/ssa: guarded-effect (edge deletion), order/must-follow, lockset pairing, guarded-by tables, who-may-call, blocking-discipline classification, kind flow, stop-order escape analysis",
    }],
    "checks": checks,
    "not_applicable": na,
    "notes": "All checks analyse /repo's current source on every run (go/packages load + SSA build, ~3 s); nothing of /repo is executed. Known genuine defects are listed in known_findings.json (open => KNOWN-FINDING line, fixed => suppresses nothing). See DESIGN.md.",
}
json.dump(manifest, open(os.path.join(HERE, "MANIFEST.json"), "w"), indent=1)
print("claimed:", sorted(CLAIMED), "n/a:", [x["property_id"] for x in na])
