#!/bin/sh
# usage: tools/try_tree.sh <repo dir> : runs every check on the given tree with a throw-away verif dir
V=$(mktemp -d /tmp/trytree-XXXXXX); cp /verif/known_findings.json "$V/"
/verif/bin/nvet -prop all -repo "$1" -verif "$V" | grep -E "^(VIOLATION:|UNDECIDED:|CHECK)" | cut -c1-${CUT:-300}
grep -h -o '"inlining_note": "[^"]*"' "$V"/evidence/C01.json | head -1
rm -rf "$V"
