# exec'd by gen_manifest.py: one claim() per property that has a built check.
claim("C01", "guarded-effect edge deletion + who-may-call + must-follow over go/ssa",
      "Decides, on every CFG path of handleHeadersMsg/checkHeaderSanity/handleDonePeerMsg, that a header reaches the block-header store only behind the connection test and both btcd validators (with zero behaviour flags), that a checkpoint mismatch never writes, and that only the tabled functions write the store. Level 'other': a structural necessary condition, exhaustive over paths, not a statement about runtime histories.",
      "Not decided: btcd's consensus arithmetic, store lookup agreement (C07), message sequences.")
