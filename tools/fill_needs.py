#!/usr/bin/env python3
"""Fills meta.json needs_to_manifest from the 'what is needed' section of NOTES.md when keep_seed.py only caught the heading."""
import json,glob,re
for d in sorted(glob.glob('/verif/seeded/C*')):
    m=json.load(open(d+'/meta.json'))
    n=m['needs_to_manifest']
    if len(n) > 60 and not n.lower().startswith('what'):
        continue
    lines=open(d+'/NOTES.md').read().splitlines()
    idx=None
    for i,l in enumerate(lines):
        t=l.strip(' #*:').lower()
        if ('need' in t or 'manifest' in t or 'trigger' in t) and (l.strip().startswith('#') or l.strip().startswith('**')) and len(t) < 90:
            idx=i;break
    if idx is None:
        print('NOHEAD',d, '|', n);continue
    body=[]
    for l in lines[idx+1:]:
        if (l.strip().startswith('#')) and body: break
        if l.strip(): body.append(l.strip(' -*'))
    txt=re.sub(r'\s+',' ',' '.join(body))[:600]
    m['needs_to_manifest']=txt
    json.dump(m,open(d+'/meta.json','w'),indent=1)
    print(d.split('/')[-1],'|',txt[:130])
