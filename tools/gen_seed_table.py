#!/usr/bin/env python3
"""Regenerates Appendix F of DESIGN.md from seeded/*/meta.json."""
import json, glob, os, re
rows=[]
for d in sorted(glob.glob('/verif/seeded/*/meta.json')):
    m=json.load(open(d))
    first=m['checks']['reported_when_first_run']
    now=", ".join(m['checks']['reported_now_by'])
    rows.append("| `%s` | %s | %s | %s | %s |" % (m['id'], m['breaks_property'], m['needs_to_manifest'].replace('|','/'), first, now))
tbl="""## Appendix F — independently seeded changes and the checks that report them

Each row is a change produced by a sub-agent that saw only the property text
(nothing of /verif), kept under `seeded/<id>/` (patch.diff, demo/, NOTES.md,
meta.json) after the demonstration was re-verified in a scratch copy of /repo
(`tools/try_seed.sh`): it passes on the unchanged tree and fails with the
change, and the change compiles. "first run" is what the checks said when the
change was first tried; where that was MISSED, a rule stating a genuine
necessary condition of the property was added (never a match on the seeded
text) and a corresponding variant was added to `selftest/mutants.py`.

| id | property | what it needs to manifest | first run | reported now by |
|---|---|---|---|---|
""" + "\n".join(rows) + "\n"
p='/verif/DESIGN.md'
s=open(p).read()
i=s.find('## Appendix F — independently seeded changes')
if i>=0:
    k=s.find('\n## ', i+5)
    rest = s[k+1:] if k>=0 else ''
    s=s[:i].rstrip()+"\n\n"+tbl+("\n"+rest if rest else '')
else:
    s=s.rstrip()+"\n\n"+tbl
open(p,'w').write(s)
print(len(rows),'rows')
