#!/bin/sh
# Self-test of the source-level inliner: treat EVERY function of a scratch copy
# of /repo as new, inline everything that is inlinable, write the rewritten
# files over the copy and compile it with the ordinary toolchain.
. /verif/env.sh
W=$(mktemp -d /tmp/ia-XXXXXX); rsync -a --exclude .git /repo/ "$W/"
NVET_NOLINE=1 NVET_KEEPDEAD=${KEEPDEAD:-} /verif/bin/nvet -inline-all -show-inlined -repo "$W" 2>/dev/null > "$W/.inl.txt"
python3 - "$W" <<'PY'
import re,sys
w=sys.argv[1]
txt=open(w+'/.inl.txt').read()
parts=re.split(r'^==== (.*)\n', txt, flags=re.M)
for i in range(1,len(parts),2):
    open(parts[i],'w').write(parts[i+1])
print(len(parts)//2,'files rewritten')
PY
( cd "$W" && go build ./... 2>&1 | head -${N:-20} && ( cd cache && go build ./... 2>&1 | head -5 ) )
[ -n "${RUNTESTS:-}" ] && ( cd "$W" && go test -count=1 ${RUNTESTS} 2>&1 | grep -E "^(ok|FAIL|--- FAIL|panic)" )
rm -rf "$W"
