#!/bin/sh
# usage: ./check.sh <property id|all> [quick|thorough]
# Rebuilds the analyser if needed, then analyses /repo's current working tree.
# Exit 0: every obligation discharged (KNOWN-FINDING lines for listed findings);
# exit 1: VIOLATION lines; exit 2: the check itself is broken.
cd "$(dirname "$0")" || exit 2
. ./env.sh
tier="${2:-${VERIF_TIER:-quick}}"
mkdir -p bin evidence replay
( cd checker && go build -o ../bin/nvet ./cmd/nvet ) || { echo "CHECK-BROKEN property=$1 cannot build the analyser"; exit 2; }
exec ./bin/nvet -prop "$1" -tier "$tier" -repo "${VERIF_REPO:-/repo}" -verif "$(pwd)"
