# Sourced by every /verif script: a fixed, offline Go environment.
# /repo's go.mod says go 1.25.11; the cached toolchain is put first on PATH so
# that the result does not depend on GOTOOLCHAIN/GOSUMDB exported by the caller.
_modcache="${GOMODCACHE:-/root/go/pkg/mod}"
_tc="$_modcache/golang.org/toolchain@v0.0.1-go1.25.11.linux-amd64/bin"
if [ -x "$_tc/go" ]; then
  PATH="$_tc:$PATH"; export PATH
  GOTOOLCHAIN=local; export GOTOOLCHAIN
else
  GOTOOLCHAIN=auto; export GOTOOLCHAIN
  unset GOSUMDB
fi
GOFLAGS=-mod=mod; GOPROXY=off; GOWORK=off; GONOSUMDB='*'; GONOSUMCHECK=1
export GOFLAGS GOPROXY GOWORK GONOSUMDB GONOSUMCHECK
