# Source mutants used to self-test the analyser (DESIGN §7, appendix E).
# Each entry: name, props to run, edits [(file, old, new)], expect [rule ids]
# (empty expect = behaviour-preserving variant that must stay quiet).
MUTANTS = []

def mut(name, props, edits, expect, new_files=None):
    MUTANTS.append(dict(name=name, props=props, edits=edits, expect=expect, new_files=new_files or []))

BM = "blockmanager.go"

# ---- C01 ----
mut("c01-drop-sanity-return", ["C01"], [(BM, '''			if err != nil {
				log.Warnf("Header doesn't pass sanity check: "+
					"%s -- disconnecting peer", err)
				hmsg.peer.Disconnect()
				return
			}

			node.Height = prevNode.Height + 1''', '''			if err != nil {
				log.Warnf("Header doesn't pass sanity check: "+
					"%s -- disconnecting peer", err)
			}

			node.Height = prevNode.Height + 1''')], ["C01.G1"])
mut("c01-nopow-flag", ["C01"], [(BM, '''		blockHeader, b.cfg.ChainParams.PowLimit, b.cfg.TimeSource,
		emptyFlags,''', '''		blockHeader, b.cfg.ChainParams.PowLimit, b.cfg.TimeSource,
		blockchain.BFNoPoWCheck,''')], ["C01.G2"])
mut("c01-drop-context-check", ["C01"], [(BM, '''	err := blockchain.CheckBlockHeaderContext(
		blockHeader, parentHeaderCtx, emptyFlags, chainCtx, true,
	)
	if err != nil {
		return err
	}
''', '''	_ = parentHeaderCtx
	_ = chainCtx
''')], ["C01.G2"])
mut("c01-checkpoint-mismatch-break", ["C01"], [(BM, '''				err := b.rollBackToHeight(uint32(
					prevCheckpoint.Height),
				)
				if err != nil {
					log.Criticalf("Rollback failed: %s",
						err)
					// Should we panic here?
				}

				hmsg.peer.Disconnect()
				return''', '''				_ = prevCheckpoint
				break''')], ["C01.G4"])
mut("c01-new-writer", ["C01"], [], ["C01.W1"], new_files=[("zz_writer.go", '''package neutrino

import "github.com/lightninglabs/neutrino/headerfs"

func (s *ChainService) zzInject(h headerfs.BlockHeader) error {
	return s.BlockHeaders.WriteHeaders(h)
}
''')])
mut("c01-ignore-connected-check", ["C01"], [(BM, '''	if !areHeadersConnected(msg.Headers) {
		log.Warnf("Headers received from peer don't connect")
		hmsg.peer.Disconnect()
		return
	}''', '''	if !areHeadersConnected(msg.Headers) {
		log.Warnf("Headers received from peer don't connect")
	}''')], ["C01.G3"])
mut("c01-donepeer-no-reset", ["C01"], [(BM, '''		b.headerList.ResetHeaderState(headerlist.Node{
			Header: *header,
			Height: int32(height),
		})
		b.startSync(peers)''', '''		_, _ = header, height
		b.startSync(peers)''')], ["C01.O2"])
mut("c01-quiet-switch-form", ["C01", "C02"], [(BM, '''			if err != nil {
				log.Warnf("Header doesn't pass sanity check: "+
					"%s -- disconnecting peer", err)
				hmsg.peer.Disconnect()
				return
			}

			node.Height = prevNode.Height + 1''', '''			switch {
			case err != nil:
				log.Warnf("Header doesn't pass sanity check: "+
					"%s -- disconnecting peer", err)
				hmsg.peer.Disconnect()
				return
			}

			node.Height = prevNode.Height + 1''')], [])

# ---- C02 ----
mut("c02-accept-equal-work", ["C02"], [(BM, '''				hmsg.peer.Disconnect()
				fallthrough
			case 0:
				return
			default:''', '''				hmsg.peer.Disconnect()
				return
			default:''')], ["C02.G1"])
mut("c02-swap-cmp-operands", ["C02"], [(BM, "switch knownWork.Cmp(totalWork) {", "switch totalWork.Cmp(knownWork) {")], ["C02.V1"])
mut("c02-drop-checkpoint-floor", ["C02"], [(BM, '''			if backHeight < uint32(prevCheckpoint.Height) {
				log.Errorf("Attempt at a reorg earlier than a "+
					"checkpoint past which we've already "+
					"synchronized -- disconnecting peer "+
					"%s", hmsg.peer.Addr())
				hmsg.peer.Disconnect()
				return
			}''', '''			_ = prevCheckpoint''')], ["C02.G1"])
mut("c02-floor-le", ["C02"], [(BM, "if backHeight < uint32(prevCheckpoint.Height) {", "if backHeight <= uint32(prevCheckpoint.Height) {")], ["C02.G1"])
mut("c02-sanity-loop-continue", ["C02"], [(BM, '''					log.Warnf("Header doesn't pass sanity"+
						" check: %s -- disconnecting "+
						"peer", err)
					hmsg.peer.Disconnect()
					return''', '''					log.Warnf("Header doesn't pass sanity"+
						" check: %s -- disconnecting "+
						"peer", err)
					continue''')], ["C02.G1"])
mut("c02-nonsync-peer-reorg", ["C02"], [(BM, '''			if hmsg.peer != b.SyncPeer() && !b.BlockHeadersSynced() {
				return
			}
''', '')], ["C02.G2"])
mut("c02-quiet-ge-form", ["C02"], [(BM, '''			if backHeight < uint32(prevCheckpoint.Height) {
				log.Errorf("Attempt at a reorg earlier than a "+
					"checkpoint past which we've already "+
					"synchronized -- disconnecting peer "+
					"%s", hmsg.peer.Addr())
				hmsg.peer.Disconnect()
				return
			}''', '''			if !(backHeight >= uint32(prevCheckpoint.Height)) {
				hmsg.peer.Disconnect()
				return
			}''')], [])

# ---- C03 ----
mut("c03-drop-tip-check", ["C03"], [(BM, '''	if *tip != msg.PrevFilterHeader {
		return nil, 0, fmt.Errorf("attempt to write cfheaders out of "+
			"order, tip=%v (height=%v), prev_hash=%v", *tip,
			tipHeight, msg.PrevFilterHeader)
	}''', '''	_, _ = tip, tipHeight''')], ["C03.G1"])
mut("c03-deliver-before-verify", ["C03"], [(BM, '''	if !verifyCheckpoint(prevCheckpoint, nextCheckpoint, r) {
		log.Warnf("Checkpoints at index %v don't match response!!!",
			checkPointIndex)
''', '''	select {
	case c.headerChan <- r:
	default:
	}
	if !verifyCheckpoint(prevCheckpoint, nextCheckpoint, r) {
		log.Warnf("Checkpoints at index %v don't match response!!!",
			checkPointIndex)
''')], ["C03.G2"])
mut("c03-verify-empty-true", ["C03"], [(BM, '''	lastHeader := cfheaders.PrevFilterHeader
	for _, hash := range cfheaders.FilterHashes {
		lastHeader = chainhash.DoubleHashH(
			append(hash[:], lastHeader[:]...),
		)
	}

	return lastHeader == *nextCheckpoint''', '''	if len(cfheaders.FilterHashes) == 0 {
		return true
	}
	lastHeader := cfheaders.PrevFilterHeader
	for _, hash := range cfheaders.FilterHashes {
		lastHeader = chainhash.DoubleHashH(
			append(hash[:], lastHeader[:]...),
		)
	}

	return lastHeader == *nextCheckpoint''')], ["C03.G3"])
mut("c03-rollback-block-first", ["C03"], [(BM, '''		// Only roll back filter headers if they've caught up this far.
		if uint32(bs.Height) <= regHeight {
			newFilterTip, err := b.cfg.RegFilterHeaders.RollbackLastBlock(newTip)
			if err != nil {
				return err
			}
			regHeight = uint32(newFilterTip.Height)
		}

		bs, err = b.cfg.BlockHeaders.RollbackLastBlock()
		if err != nil {
			return err
		}
''', '''		oldHeight := uint32(bs.Height)
		bs, err = b.cfg.BlockHeaders.RollbackLastBlock()
		if err != nil {
			return err
		}

		// Only roll back filter headers if they've caught up this far.
		if oldHeight <= regHeight {
			newFilterTip, err := b.cfg.RegFilterHeaders.RollbackLastBlock(newTip)
			if err != nil {
				return err
			}
			regHeight = uint32(newFilterTip.Height)
		}
''')], ["C03.O2"])
mut("c03-rollback-lt", ["C03"], [(BM, "if uint32(bs.Height) <= regHeight {", "if uint32(bs.Height) < regHeight {")], ["C03.O2"])
mut("c03-uncheckpointed-keep-banned", ["C03"], [(BM, '''				if err != nil {
					log.Errorf("Unable to ban peer %v: %v",
						peer, err)
				}
				delete(headers, peer)
			}
		}
	}

	// Get the longest filter hash chain and write it to the store.''', '''				if err != nil {
					log.Errorf("Unable to ban peer %v: %v",
						peer, err)
				}
			}
		}
	}

	// Get the longest filter hash chain and write it to the store.''')], ["C03.O1"])
mut("c03-wrong-prev-no-ban", ["C03"], [(BM, '''		if msg.PrevFilterHeader != *filterTip {
			err := b.cfg.BanPeer(peer, banman.InvalidFilterHeader)
			if err != nil {
				log.Errorf("Unable to ban peer %v: %v", peer, err)
			}
			delete(headers, peer)
		}''', '''		if msg.PrevFilterHeader != *filterTip {
			delete(headers, peer)
		}''')], ["C03.O1"])
mut("c03-filterhash-not-chained", ["C03"], [(BM, '''		headerBatch = append(headerBatch, headerfs.FilterHeader{
			FilterHash: lastHeader,
		})''', '''		headerBatch = append(headerBatch, headerfs.FilterHeader{
			FilterHash: *hash,
		})''')], ["C03.V1"])
mut("c03-quiet-verify-early-eq", ["C03"], [(BM, '''	if *prevCheckpoint != cfheaders.PrevFilterHeader {
		return false
	}

	lastHeader := cfheaders.PrevFilterHeader''', '''	switch {
	case *prevCheckpoint == cfheaders.PrevFilterHeader:
	default:
		return false
	}

	lastHeader := cfheaders.PrevFilterHeader''')], [])
