# Source mutants used to self-test the analyser (DESIGN §7, appendix E).
# Each entry: name, props to run, edits [(file, old, new)], expect [rule ids]
# (empty expect = behaviour-preserving variant that must stay quiet).
MUTANTS = []

def mut(name, props, edits, expect, new_files=None):
    MUTANTS.append(dict(name=name, props=props, edits=edits, expect=expect, new_files=new_files or []))

BM = "blockmanager.go"

# ---- C01 ----
mut("c01-drop-sanity-return", ["C01"], [(BM, '\t\t\tif err != nil {\n\t\t\t\tlog.Warnf("Header doesn\'t pass sanity check: "+\n\t\t\t\t\t"%s -- disconnecting peer", err)\n\t\t\t\thmsg.peer.Disconnect()\n\n\t\t\t\t// Earlier headers of this message are already\n\t\t\t\t// on the header list but will never be written.\n\t\t\t\tb.resetHeaderListToChainTip()\n\t\t\t\treturn\n\t\t\t}\n\n\t\t\tnode.Height = prevNode.Height + 1', '\t\t\tif err != nil {\n\t\t\t\tlog.Warnf("Header doesn\'t pass sanity check: "+\n\t\t\t\t\t"%s -- disconnecting peer", err)\n\t\t\t}\n\n\t\t\tnode.Height = prevNode.Height + 1')], ["C01.G1"])
mut("c01-nopow-flag", ["C01"], [(BM, '''		blockHeader, b.cfg.ChainParams.PowLimit, b.cfg.TimeSource,
		emptyFlags,''', '''		blockHeader, b.cfg.ChainParams.PowLimit, b.cfg.TimeSource,
		blockchain.BFNoPoWCheck,''')], ["C01.G2"])
mut("c01-drop-context-check", ["C01"], [(BM, '''	err := blockchain.CheckBlockHeaderContext(
		blockHeader, parentHeaderCtx, emptyFlags, chainCtx, true,
	)
	if err != nil {
		return err
	}
''', '''	_ = parentHeaderCtx
	_ = chainCtx
''')], ["C01.G2"])
mut("c01-checkpoint-mismatch-break", ["C01"], [(BM, '\t\t\t\terr := b.rollBackToHeight(uint32(\n\t\t\t\t\tprevCheckpoint.Height),\n\t\t\t\t)\n\t\t\t\tif err != nil {\n\t\t\t\t\tlog.Criticalf("Rollback failed: %s",\n\t\t\t\t\t\terr)\n\t\t\t\t\t// Should we panic here?\n\t\t\t\t}\n\n\t\t\t\thmsg.peer.Disconnect()\n\n\t\t\t\t// The store is back at the checkpoint and the\n\t\t\t\t// batch is dropped, so the list must follow.\n\t\t\t\tb.resetHeaderListToChainTip()\n\t\t\t\treturn', '\t\t\t\t_ = prevCheckpoint\n\t\t\t\tbreak')], ["C01.G4"])
mut("c01-new-writer", ["C01"], [], ["C01.W1"], new_files=[("zz_writer.go", '''package neutrino

import "github.com/lightninglabs/neutrino/headerfs"

func (s *ChainService) zzInject(h headerfs.BlockHeader) error {
	return s.BlockHeaders.WriteHeaders(h)
}
''')])
mut("c01-ignore-connected-check", ["C01"], [(BM, '''	if !areHeadersConnected(msg.Headers) {
		log.Warnf("Headers received from peer don't connect")
		hmsg.peer.Disconnect()
		return
	}''', '''	if !areHeadersConnected(msg.Headers) {
		log.Warnf("Headers received from peer don't connect")
	}''')], ["C01.G3"])
mut("c01-donepeer-no-reset", ["C01"], [(BM, '''		b.headerList.ResetHeaderState(headerlist.Node{
			Header: *header,
			Height: int32(height),
		})
		b.startSync(peers)''', '''		_, _ = header, height
		b.startSync(peers)''')], ["C01.O2"])
mut("c01-quiet-switch-form", ["C01", "C02"], [(BM, '\t\t\tif err != nil {\n\t\t\t\tlog.Warnf("Header doesn\'t pass sanity check: "+\n\t\t\t\t\t"%s -- disconnecting peer", err)\n\t\t\t\thmsg.peer.Disconnect()\n\n\t\t\t\t// Earlier headers of this message are already\n\t\t\t\t// on the header list but will never be written.\n\t\t\t\tb.resetHeaderListToChainTip()\n\t\t\t\treturn\n\t\t\t}\n\n\t\t\tnode.Height = prevNode.Height + 1', '\t\t\tswitch {\n\t\t\tcase err != nil:\n\t\t\t\tlog.Warnf("Header doesn\'t pass sanity check: "+\n\t\t\t\t\t"%s -- disconnecting peer", err)\n\t\t\t\thmsg.peer.Disconnect()\n\t\t\t\tb.resetHeaderListToChainTip()\n\t\t\t\treturn\n\t\t\t}\n\n\t\t\tnode.Height = prevNode.Height + 1')], [])
mut("c02-accept-equal-work", ["C02"], [(BM, '''				hmsg.peer.Disconnect()
				fallthrough
			case 0:
				return
			default:''', '''				hmsg.peer.Disconnect()
				return
			default:''')], ["C02.G1"])
mut("c02-swap-cmp-operands", ["C02"], [(BM, "switch knownWork.Cmp(totalWork) {", "switch totalWork.Cmp(knownWork) {")], ["C02.V1"])
mut("c02-drop-checkpoint-floor", ["C02"], [(BM, '''			if backHeight < uint32(prevCheckpoint.Height) {
				log.Errorf("Attempt at a reorg earlier than a "+
					"checkpoint past which we've already "+
					"synchronized -- disconnecting peer "+
					"%s", hmsg.peer.Addr())
				hmsg.peer.Disconnect()
				return
			}''', '''			_ = prevCheckpoint''')], ["C02.G1"])
mut("c02-floor-le", ["C02"], [(BM, "if backHeight < uint32(prevCheckpoint.Height) {", "if backHeight <= uint32(prevCheckpoint.Height) {")], ["C02.G1"])
mut("c02-sanity-loop-continue", ["C02"], [(BM, '''					log.Warnf("Header doesn't pass sanity"+
						" check: %s -- disconnecting "+
						"peer", err)
					hmsg.peer.Disconnect()
					return''', '''					log.Warnf("Header doesn't pass sanity"+
						" check: %s -- disconnecting "+
						"peer", err)
					continue''')], ["C02.G1"])
mut("c02-nonsync-peer-reorg", ["C02"], [(BM, '''			if hmsg.peer != b.SyncPeer() && !b.BlockHeadersSynced() {
				return
			}
''', '')], ["C02.G2"])
mut("c02-quiet-ge-form", ["C02"], [(BM, '''			if backHeight < uint32(prevCheckpoint.Height) {
				log.Errorf("Attempt at a reorg earlier than a "+
					"checkpoint past which we've already "+
					"synchronized -- disconnecting peer "+
					"%s", hmsg.peer.Addr())
				hmsg.peer.Disconnect()
				return
			}''', '''			if !(backHeight >= uint32(prevCheckpoint.Height)) {
				hmsg.peer.Disconnect()
				return
			}''')], [])

# ---- C03 ----
mut("c03-drop-tip-check", ["C03"], [(BM, '''	if *tip != msg.PrevFilterHeader {
		return nil, 0, fmt.Errorf("attempt to write cfheaders out of "+
			"order, tip=%v (height=%v), prev_hash=%v", *tip,
			tipHeight, msg.PrevFilterHeader)
	}''', '''	_, _ = tip, tipHeight''')], ["C03.G1"])
mut("c03-deliver-before-verify", ["C03"], [(BM, '''	if !verifyCheckpoint(prevCheckpoint, nextCheckpoint, r) {
		log.Warnf("Checkpoints at index %v don't match response!!!",
			checkPointIndex)
''', '''	select {
	case c.headerChan <- r:
	default:
	}
	if !verifyCheckpoint(prevCheckpoint, nextCheckpoint, r) {
		log.Warnf("Checkpoints at index %v don't match response!!!",
			checkPointIndex)
''')], ["C03.G2"])
mut("c03-verify-empty-true", ["C03"], [(BM, '''	lastHeader := cfheaders.PrevFilterHeader
	for _, hash := range cfheaders.FilterHashes {
		lastHeader = chainhash.DoubleHashH(
			append(hash[:], lastHeader[:]...),
		)
	}

	return lastHeader == *nextCheckpoint''', '''	if len(cfheaders.FilterHashes) == 0 {
		return true
	}
	lastHeader := cfheaders.PrevFilterHeader
	for _, hash := range cfheaders.FilterHashes {
		lastHeader = chainhash.DoubleHashH(
			append(hash[:], lastHeader[:]...),
		)
	}

	return lastHeader == *nextCheckpoint''')], ["C03.G3"])
mut("c03-rollback-block-first", ["C03"], [(BM, "\t\t// Only roll back filter headers if they've caught up this far.\n\t\tif uint32(bs.Height) <= regHeight {\n\t\t\tnewFilterTip, err := b.cfg.RegFilterHeaders.RollbackLastBlock(newTip)\n\t\t\tif err != nil {\n\t\t\t\treturn err\n\t\t\t}\n\t\t\tregHeight = uint32(newFilterTip.Height)\n\n\t\t\t// Keep the in-memory filter header tip in step with\n\t\t\t// the store, as writeCFHeadersMsg does when it extends\n\t\t\t// it. It bounds the backlog handed to new block\n\t\t\t// subscribers, which would otherwise ask the store for\n\t\t\t// heights that no longer exist.\n\t\t\tb.newFilterHeadersMtx.Lock()\n\t\t\tb.filterHeaderTip = regHeight\n\t\t\tb.filterHeaderTipHash = *newTip\n\t\t\tb.newFilterHeadersMtx.Unlock()\n\t\t}\n\n\t\tbs, err = b.cfg.BlockHeaders.RollbackLastBlock()\n\t\tif err != nil {\n\t\t\treturn err\n\t\t}\n", "\t\toldHeight := uint32(bs.Height)\n\t\tbs, err = b.cfg.BlockHeaders.RollbackLastBlock()\n\t\tif err != nil {\n\t\t\treturn err\n\t\t}\n\n\t\t// Only roll back filter headers if they've caught up this far.\n\t\tif oldHeight <= regHeight {\n\t\t\tnewFilterTip, err := b.cfg.RegFilterHeaders.RollbackLastBlock(newTip)\n\t\t\tif err != nil {\n\t\t\t\treturn err\n\t\t\t}\n\t\t\tregHeight = uint32(newFilterTip.Height)\n\n\t\t\t// Keep the in-memory filter header tip in step with\n\t\t\t// the store, as writeCFHeadersMsg does when it extends\n\t\t\t// it. It bounds the backlog handed to new block\n\t\t\t// subscribers, which would otherwise ask the store for\n\t\t\t// heights that no longer exist.\n\t\t\tb.newFilterHeadersMtx.Lock()\n\t\t\tb.filterHeaderTip = regHeight\n\t\t\tb.filterHeaderTipHash = *newTip\n\t\t\tb.newFilterHeadersMtx.Unlock()\n\t\t}\n\n")], ["C03.O2"])
mut("c03-rollback-lt", ["C03"], [(BM, "if uint32(bs.Height) <= regHeight {", "if uint32(bs.Height) < regHeight {")], ["C03.O2"])
mut("c03-uncheckpointed-keep-banned", ["C03"], [(BM, '''				if err != nil {
					log.Errorf("Unable to ban peer %v: %v",
						peer, err)
				}
				delete(headers, peer)
			}
		}
	}

	// Get the longest filter hash chain and write it to the store.''', '''				if err != nil {
					log.Errorf("Unable to ban peer %v: %v",
						peer, err)
				}
			}
		}
	}

	// Get the longest filter hash chain and write it to the store.''')], ["C03.O1"])
mut("c03-wrong-prev-no-ban", ["C03"], [(BM, '''		if msg.PrevFilterHeader != *filterTip {
			err := b.cfg.BanPeer(peer, banman.InvalidFilterHeader)
			if err != nil {
				log.Errorf("Unable to ban peer %v: %v", peer, err)
			}
			delete(headers, peer)
		}''', '''		if msg.PrevFilterHeader != *filterTip {
			delete(headers, peer)
		}''')], ["C03.O1"])
mut("c03-filterhash-not-chained", ["C03"], [(BM, '''		headerBatch = append(headerBatch, headerfs.FilterHeader{
			FilterHash: lastHeader,
		})''', '''		headerBatch = append(headerBatch, headerfs.FilterHeader{
			FilterHash: *hash,
		})''')], ["C03.V1"])
mut("c03-quiet-verify-early-eq", ["C03"], [(BM, '''	if *prevCheckpoint != cfheaders.PrevFilterHeader {
		return false
	}

	lastHeader := cfheaders.PrevFilterHeader''', '''	switch {
	case *prevCheckpoint == cfheaders.PrevFilterHeader:
	default:
		return false
	}

	lastHeader := cfheaders.PrevFilterHeader''')], [])

# ---- C05 ----
Q = "query.go"
mut("c05-header-mismatch-fallthrough", ["C05"], [(Q, '''	if filterHeader != curHeader {
		return noProgress
	}''', '''	if filterHeader != curHeader {
		log.Warnf("filter header mismatch")
	}''')], ["C05.G1"])
mut("c05-cache-before-compare", ["C05"], [(Q, '''	if filterHeader != curHeader {
		return noProgress
	}''', '''	_, _ = q.cs.putFilterToCache(&response.BlockHash, filterdb.RegularFilter, filter)
	if filterHeader != curHeader {
		return noProgress
	}''')], ["C05.G1"])
mut("c05-ignore-decode-error", ["C05"], [(Q, '''	if err != nil {
		// Malformed filter data. We can ignore this message.
		return noProgress
	}''', '''	if err != nil {
		// Malformed filter data. We can ignore this message.
		log.Warnf("malformed filter: %v", err)
	}''')], ["C05.G1"])
mut("c05-prev-header-off-by-one", ["C05"], [(Q, "prevHeader = q.filterHeaders[i-1]", "prevHeader = q.filterHeaders[i]")], ["C05.V1"])
mut("c05-filter-ancestors-range", ["C05"], [(Q, '''	filterHeaders, _, err := s.RegFilterHeaders.FetchHeaderAncestors(
		numFilters, stopHash,
	)''', '''	filterHeaders, _, err := s.RegFilterHeaders.FetchHeaderAncestors(
		numFilters+1, stopHash,
	)''')], ["C05.V1"])
mut("c05-index-from-zero", ["C05"], [(Q, "for i := 1; i < len(blockHeaders); i++ {", "for i := 0; i < len(blockHeaders); i++ {")], ["C05.V1"])
mut("c05-new-cache-writer", ["C05"], [], ["C05.W1"], new_files=[("zz_cachewriter.go", '''package neutrino

import (
	"github.com/btcsuite/btcd/btcutil/v2/gcs"
	"github.com/btcsuite/btcd/chainhash/v2"
	"github.com/lightninglabs/neutrino/filterdb"
)

func (s *ChainService) zzPrime(h *chainhash.Hash, f *gcs.Filter) {
	_, _ = s.putFilterToCache(h, filterdb.RegularFilter, f)
}
''')])
mut("c05-return-unvalidated", ["C05"], [(Q, '''	if filterQuery.targetFilter == nil {
		return nil, ErrFilterFetchFailed
	}''', '''	if filterQuery.targetFilter == nil {
		return gcs.FromNBytes(builder.DefaultP, builder.DefaultM, nil)
	}''')], ["C05.V2"])

# ---- C06 ----
mut("c06-skip-witness", ["C06"], [(Q, '''		if err := blockchain.ValidateWitnessCommitment(
			block,
		); err != nil {''', '''		if err := error(nil); err != nil {''')], ["C06.G1"])
mut("c06-sanity-no-ban", ["C06"], [(Q, '''			// Ban and disconnect the peer.
			err = s.BanPeer(peer, banman.InvalidBlock)
			if err != nil {
				log.Errorf("Unable to ban peer %v: %v", peer,
					err)
			}

			return noProgress''', '''			return noProgress''')], ["C06.O1"])
mut("c06-compare-prevblock", ["C06"], [(Q, "if response.BlockHash() != blockHash {", "if response.Header.PrevBlock != blockHash {")], ["C06.G1"])
mut("c06-sanity-log-only", ["C06"], [(Q, '''			err = s.BanPeer(peer, banman.InvalidBlock)
			if err != nil {
				log.Errorf("Unable to ban peer %v: %v", peer,
					err)
			}

			return noProgress
		}

		if err := blockchain.ValidateWitnessCommitment(''', '''			err = s.BanPeer(peer, banman.InvalidBlock)
			if err != nil {
				log.Errorf("Unable to ban peer %v: %v", peer,
					err)
			}
		}

		if err := blockchain.ValidateWitnessCommitment(''')], ["C06.G1"])
mut("c06-cache-unvalidated", ["C06"], [(Q, '''	if foundBlock == nil {
		return nil, fmt.Errorf("couldn't retrieve block %s from "+
			"network", blockHash)
	}
''', '')], ["C06.V1"])
mut("c06-quiet-wrapper", ["C06"], [(Q, '''		if err := blockchain.ValidateWitnessCommitment(
			block,
		); err != nil {''', '''		if err := zzValidateWitness(block); err != nil {'''), (Q, '''// sendTransaction sends a transaction to all peers. It returns an error if any
// peer rejects the transaction.''', '''func zzValidateWitness(b *btcutil.Block) error {
	if b == nil {
		return fmt.Errorf("nil block")
	}
	if err := blockchain.ValidateWitnessCommitment(b); err != nil {
		return fmt.Errorf("witness: %w", err)
	}
	return nil
}

// sendTransaction sends a transaction to all peers. It returns an error if any
// peer rejects the transaction.''')], [])
mut("c06-bad-wrapper", ["C06"], [(Q, '''		if err := blockchain.ValidateWitnessCommitment(
			block,
		); err != nil {''', '''		if err := zzValidateWitness(block); err != nil {'''), (Q, '''// sendTransaction sends a transaction to all peers. It returns an error if any
// peer rejects the transaction.''', '''func zzValidateWitness(b *btcutil.Block) error {
	if len(b.MsgBlock().Transactions) == 1 {
		return nil
	}
	if err := blockchain.ValidateWitnessCommitment(b); err != nil {
		return fmt.Errorf("witness: %w", err)
	}
	return nil
}

// sendTransaction sends a transaction to all peers. It returns an error if any
// peer rejects the transaction.''')], ["C06.G1"])

# ---- C16 (cache module) ----
LRU = "cache/lru/lru.go"
mut("c16-put-leak-on-size-error", ["C16"], [(LRU, '''		if err != nil {
			c.mtx.Unlock()

			return false, fmt.Errorf("couldn't determine size of "+
				"existing cache value %v", err)''', '''		if err != nil {
			return false, fmt.Errorf("couldn't determine size of "+
				"existing cache value %v", err)''')], ["C16.P1"])
mut("c16-len-no-lock", ["C16"], [(LRU, '''func (c *Cache[K, V]) Len() int {
	c.mtx.RLock()
	defer c.mtx.RUnlock()
''', '''func (c *Cache[K, V]) Len() int {
''')], ["C16.L1"])
mut("c16-size-before-evict", ["C16"], [(LRU, '''	evicted, err := c.evict(vs)
	if err != nil {
		c.mtx.Unlock()

		return false, err
	}

	// We have made enough space in the cache, so just insert it.
	el = c.ll.PushFront(entry[K, V]{key: key, value: value})
	c.size += vs
''', '''	c.size += vs
	evicted, err := c.evict(vs)
	if err != nil {
		c.mtx.Unlock()

		return false, err
	}

	// We have made enough space in the cache, so just insert it.
	el = c.ll.PushFront(entry[K, V]{key: key, value: value})
''')], ["C16.G1"])
mut("c16-get-lookup-outside", ["C16"], [(LRU, '''	c.mtx.Lock()
	defer c.mtx.Unlock()

	el, ok := c.cache.Load(key)
	if !ok {
		// Element not found in the cache.
		return defaultVal, cache.ErrElementNotFound
	}
''', '''	el, ok := c.cache.Load(key)
	if !ok {
		// Element not found in the cache.
		return defaultVal, cache.ErrElementNotFound
	}

	c.mtx.Lock()
	defer c.mtx.Unlock()
''')], ["C16.L2"])
mut("c16-evict-wrong-size", ["C16"], [(LRU, "			c.size -= es\n", "			_ = es\n			c.size -= needed\n")], ["C16.G1"])
mut("c16-size-rlock-write", ["C16"], [(LRU, '''	c.mtx.Lock()
	defer c.mtx.Unlock()

	// Noop if the element doesn't exist.''', '''	c.mtx.RLock()
	defer c.mtx.RUnlock()

	// Noop if the element doesn't exist.''')], ["C16.L1"])
mut("c16-quiet-defer-unlock", ["C16"], [(LRU, '''	c.mtx.Lock()

	// Load the element.
	el, ok := c.cache.Load(key)''', '''	c.mtx.Lock()
	defer c.mtx.Unlock()

	// Load the element.
	el, ok := c.cache.Load(key)'''), (LRU, '''		if err != nil {
			c.mtx.Unlock()

			return false, fmt.Errorf("couldn't determine size of "+''', '''		if err != nil {
			return false, fmt.Errorf("couldn't determine size of "+'''), (LRU, '''	if err != nil {
		c.mtx.Unlock()

		return false, err
	}''', '''	if err != nil {
		return false, err
	}'''), (LRU, '''	c.cache.Store(key, el)

	// Release the lock.
	c.mtx.Unlock()
''', '''	c.cache.Store(key, el)
''')], [])

# ---- C07 / C08 ----
ST = "headerfs/store.go"
mut("c07-no-compensation", ["C07"], [(ST, '''		syncErr := h.file.Sync()

		headersToRollback := len(hdrs)
		truncateErr := h.truncateHeaders(
			uint32(headersToRollback), h.indexType,
		)
		if truncateErr != nil {
			return fmt.Errorf("failed to rollback block headers "+
				"from binary file to previous valid state: "+
				"%v, error writing to database: %v, headers "+
				"to rollback: %d", truncateErr, err,
				headersToRollback)
		}
		if syncErr != nil {''', '''		syncErr := h.file.Sync()
		if syncErr != nil {''')], ["C07.O1"])
mut("c07-sync-early-return", ["C07"], [(ST, '''		syncErr := f.file.Sync()
''', '''		syncErr := f.file.Sync()
		if syncErr != nil {
			return syncErr
		}
''')], ["C07.O1"])
mut("c07-fetchheader-no-lock", ["C07"], [(ST, '''func (h *blockHeaderStore) FetchHeader(hash *chainhash.Hash) (*wire.BlockHeader, uint32, error) {
	// Lock store for read.
	h.mtx.RLock()
	defer h.mtx.RUnlock()
''', '''func (h *blockHeaderStore) FetchHeader(hash *chainhash.Hash) (*wire.BlockHeader, uint32, error) {
''')], ["C07.P1"])
mut("c07-write-under-rlock", ["C07"], [(ST, '''func (f *filterHeaderStore) WriteHeaders(hdrs ...FilterHeader) error {
	// Lock store for write.
	f.mtx.Lock()
	defer f.mtx.Unlock()''', '''func (f *filterHeaderStore) WriteHeaders(hdrs ...FilterHeader) error {
	// Lock store for write.
	f.mtx.RLock()
	defer f.mtx.RUnlock()''')], ["C07.P1"])
mut("c07-seek-current", ["C07"], [("headerfs/file.go", "h.file.Seek(0, io.SeekEnd)", "h.file.Seek(0, io.SeekCurrent)")], ["C07.V1"])
mut("c07-wrong-record-size", ["C07"], [("headerfs/file.go", "seekDistance := uint64(height) * 32", "seekDistance := uint64(height) * 33")], ["C07.T1"])
mut("c07-rollback-past-genesis", ["C07"], [(ST, '''	if n > chainTipHeight {
		return nil, fmt.Errorf("cannot roll back %d headers when "+
			"chain height is %d", n, chainTipHeight)
	}
''', '')], ["C07.G1"])
mut("c08-index-before-file", ["C08"], [(ST, '''	// With all the headers written to the buffer, we'll now write out the
	// entire batch in a single write call.
	if err := h.appendRaw(headerBuf.Bytes()); err != nil {
		return err
	}

	// Once those are written, we'll then collate all the headers into
	// headerEntry instances so we can write them all into the index in a
	// single atomic batch.
	headerLocs := make([]headerEntry, len(hdrs))
	for i, header := range hdrs {
		headerLocs[i] = header.toIndexEntry()
	}
''', '''	headerLocs := make([]headerEntry, len(hdrs))
	for i, header := range hdrs {
		headerLocs[i] = header.toIndexEntry()
	}
	if err := h.addHeaders(headerLocs); err != nil {
		return err
	}
	if err := h.appendRaw(headerBuf.Bytes()); err != nil {
		return err
	}
''')], ["C08.O1"])
mut("c08-rollback-file-first", ["C08"], [(ST, '''	err = f.truncateIndices(newTip, []*chainhash.Hash{}, false)
	if err != nil {
		return nil, err
	}

	if err := f.truncateHeaders(1, f.indexType); err != nil {
		return nil, err
	}
''', '''	if err := f.truncateHeaders(1, f.indexType); err != nil {
		return nil, err
	}

	err = f.truncateIndices(newTip, []*chainhash.Hash{}, false)
	if err != nil {
		return nil, err
	}
''')], ["C08.O2"])
mut("c08-no-reconciliation", ["C08"], [(ST, '''	if tipHash.IsEqual(latestFileHeader) {
		return fhs, nil
	}

	// Otherwise, we'll need to truncate the file until it matches the
	// current index tip.
	err = fhs.truncateHeaders(fileHeight-tipHeight, fhs.indexType)
	if err != nil {
		return nil, err
	}
''', '''	_, _ = tipHeight, latestFileHeader
	_ = tipHash
''')], ["C08.O4"])
mut("c08-import-filter-first", ["C08"], [("chainimport/headers_import.go", '''	if err := h.options.TargetBlockHeaderStore.WriteHeaders(
		blockHeaders...,
	); err != nil {
		return fmt.Errorf("failed to write block headers "+
			"batch %d-%d: %w", batchStart, batchEnd, err)
	}
''', '''	if err := h.options.TargetFilterHeaderStore.WriteHeaders(
		filterHeaders...,
	); err != nil {
		return err
	}
	if err := h.options.TargetBlockHeaderStore.WriteHeaders(
		blockHeaders...,
	); err != nil {
		return fmt.Errorf("failed to write block headers "+
			"batch %d-%d: %w", batchStart, batchEnd, err)
	}
''')], ["C08.O3"])
mut("c08-import-no-block-rollback", ["C08"], [("chainimport/headers_import.go", '''		_, rollbackErr := blkStore.RollbackBlockHeaders(
			blockHeadersToTruncate,
		)''', '''		var rollbackErr error
		_ = blkStore''')], ["C08.O3"])
mut("c08-quiet-switch-reconcile", ["C08"], [(ST, '''	if tipHash.IsEqual(&latestBlockHash) {
		return bhs, nil
	}
''', '''	switch {
	case tipHash.IsEqual(&latestBlockHash):
		return bhs, nil
	}
''')], [])

# ---- C13 ----
N = "neutrino.go"
mut("c13-addpeer-no-ban-check", ["C13"], [(N, '''	// Disconnect banned peers.
	if s.IsBanned(sp.Addr()) {
		sp.Disconnect()
		return false
	}
''', '')], ["C13.G1"])
mut("c13-addpeer-banned-no-disconnect", ["C13"], [(N, '''	if s.IsBanned(sp.Addr()) {
		sp.Disconnect()
		return false
	}

	// TODO: Check for max peers from a single IP.''', '''	if s.IsBanned(sp.Addr()) {
		return false
	}

	// TODO: Check for max peers from a single IP.''')], ["C13.G1"])
mut("c13-onversion-no-ban", ["C13"], [(N, '''		peerAddr := sp.Addr()
		err := sp.server.BanPeer(peerAddr, banman.NoCompactFilters)
		if err != nil {
			log.Errorf("Unable to ban peer %v: %v", peerAddr, err)
		}
''', '')], ["C13.O1", "C13.O2"])
mut("c13-onversion-only-witness", ["C13"], [(N, '''	if peerServices&wire.SFNodeWitness != wire.SFNodeWitness ||
		peerServices&wire.SFNodeCF != wire.SFNodeCF {
''', '''	if peerServices&wire.SFNodeWitness != wire.SFNodeWitness {
''')], ["C13.O1"])
mut("c13-status-string-key", ["C13"], [("banman/store.go", '''		k := ipNetBuf.Bytes()

		status := fetchStatus(banIndex, reasonIndex, k)''', '''		k := ipNetBuf.Bytes()
		k = []byte(ipNet.String())

		status := fetchStatus(banIndex, reasonIndex, k)''')], ["C13.T1"])
mut("c13-status-ignores-expiry", ["C13"], [("banman/store.go", '''		if !time.Now().Before(status.Expiration) {
			return removeBannedIPNet(banIndex, reasonIndex, k)
		}
''', '')], ["C13.T1"])
mut("c13-remove-one-index", ["C13"], [("banman/store.go", '''	if err := banIndex.Delete(ipNetKey); err != nil {
		return err
	}
	return reasonIndex.Delete(ipNetKey)''', '''	_ = reasonIndex
	return banIndex.Delete(ipNetKey)''')], ["C13.T1"])
mut("c13-newaddr-no-ban-check", ["C13"], [(N, '''				if s.IsBanned(addrString) {
					log.Debugf("Ignoring banned peer: %v", addrString)
					continue
				}
''', '')], ["C13.G1"])
mut("c13-outbound-log-only", ["C13"], [(N, '''	if s.IsBanned(peerAddr) {
		disconnect()
		return
	}''', '''	if s.IsBanned(peerAddr) {
		log.Debugf("banned peer %v", peerAddr)
	}''')], ["C13.G1"])
mut("c13-banpeer-no-disconnect", ["C13"], [(N, '''	defer func() {
		// We do so in a goroutine to prevent blocking if the server is
		// handling a query or a new/stale peer.
		go func() {
			if sp := s.PeerByAddr(addr); sp != nil {
				sp.Disconnect()
			}
		}()
	}()
''', '')], ["C13.O1"])
mut("c13-resolve-no-ban", ["C13", "C03"], [(BM, '''				err := b.cfg.BanPeer(
					peer, banman.InvalidFilterHeaderCheckpoint,
				)
				if err != nil {
					log.Errorf("Unable to ban peer %v: %v",
						peer, err)
				}
				delete(checkpoints, peer)
				break''', '''				delete(checkpoints, peer)
				break''')], ["C13.O2", "C03.O1"])

# ---- C14 ----
HI = "chainimport/headers_import.go"
mut("c14-height-as-index", ["C14"], [(HI, "	batchStartIdx := sourceStartIdx\n", "	batchStartIdx := startHeight\n")], ["C14.K1"])
mut("c14-readbatch-height", ["C14"], [(HI, '''		filterBatch, filterErr := filterIter.ReadBatch(
			batchStartIdx, blockIter.GetEndIndex(),''', '''		filterBatch, filterErr := filterIter.ReadBatch(
			batchStart, blockIter.GetEndIndex(),''')], ["C14.K1"])
mut("c14-lastbatch-index-vs-height", ["C14"], [(HI, "isLastBatch := batchEnd >= endHeight", "isLastBatch := batchEnd >= filterIter.GetEndIndex()")], ["C14.K1"])
mut("c14-process-before-validate", ["C14"], [(HI, '''	if err := h.validateChainContinuity(); err != nil {
		return nil, fmt.Errorf("failed to validate continuity of "+
			"import headers chain with target chain: %v", err)
	}
''', '''	if err := h.validateChainContinuity(); err != nil {
		log.Warnf("continuity: %v", err)
	}
''')], ["C14.G1"])
mut("c14-skip-filter-validation", ["C14"], [(HI, '''	err = h.filterHeadersValidator.Validate(ctx, filterHeadersIterator)
	if err != nil {
		return nil, fmt.Errorf("failed to validate filter "+
			"headers: %w", err)
	}
''', '''	_ = filterHeadersIterator
''')], ["C14.G1"])
mut("c14-pair-skips-context", ["C14"], [("chainimport/block_headers_validator.go", '''	if err := blockchain.CheckBlockHeaderContext(
		currBlockHeader.BlockHeader, parentCtx, v.flags, chainCtx, true,
	); err != nil {
		return fmt.Errorf("block header contextual validation "+
			"failed: %w", err)
	}
''', '''	_, _ = parentCtx, chainCtx
''')], ["C14.G1"])
mut("c14-pair-ignores-link", ["C14"], [("chainimport/block_headers_validator.go", '''	if !currBlockHeader.PrevBlock.IsEqual(&prevHash) {
		return fmt.Errorf("header chain broken: current header's "+
			"PrevBlock (%v) doesn't match previous header's hash "+
			"(%v)", currBlockHeader.PrevBlock, prevHash)
	}
''', '''	_ = prevHash
''')], ["C14.G1"])
mut("c14-no-block-rollback", ["C14"], [(HI, '''		_, rollbackErr := blkStore.RollbackBlockHeaders(
			blockHeadersToTruncate,
		)''', '''		var rollbackErr error
		_ = blkStore''')], ["C14.O1"])
mut("c14-len-mismatch-ignored", ["C14"], [(HI, '''		if len(blockHeaders) != len(filterHeaders) {
			return 0, fmt.Errorf("mismatch between block headers "+
				"(%d) and filter headers (%d)",
				len(blockHeaders), len(filterHeaders))
		}
''', '''		if len(blockHeaders) != len(filterHeaders) {
			log.Warnf("mismatch between block headers "+
				"(%d) and filter headers (%d)",
				len(blockHeaders), len(filterHeaders))
		}
''')], ["C14.G2"])
mut("c14-batch-error-continues", ["C14"], [(HI, '''	err := h.writeHeadersToTargetStores(
		blockHeaders, filterHeaders, batchStart, batchEnd,
	)
	if err != nil {
		return 0, fmt.Errorf("failed to write headers to target "+
			"stores: %v", err)
	}
''', '''	err := h.writeHeadersToTargetStores(
		blockHeaders, filterHeaders, batchStart, batchEnd,
	)
	if err != nil {
		log.Errorf("failed to write headers to target "+
			"stores: %v", err)
	}
''')], ["C14.G2"])
mut("c14-quiet-rename-index-var", ["C14"], [(HI, "	batchStartIdx := sourceStartIdx\n", "	batchStartIdx := sourceStartIdx + 0\n")], [])

# ---- C09 ----
RS = "rescan.go"
mut("c09-no-parent-check", ["C09"], [(RS, '''	if header.PrevBlock != rs.curStamp.Hash {
		return fmt.Errorf("out of order block %v: expected PrevBlock "+
			"%v, got %v", header.BlockHash(), rs.curStamp.Hash,
			header.PrevBlock)
	}
''', '')], ["C09.G1", "C09.G3"])
mut("c09-pays-only-if-not-relevant", ["C09"], [(RS, '''		pays, err := ro.paysWatchedAddr(tx)
		if err != nil {
			return nil, err
		}
''', '''		var pays bool
		if !relevant {
			var err error
			pays, err = ro.paysWatchedAddr(tx)
			if err != nil {
				return nil, err
			}
		}
''')], ["C09.O1"])
mut("c09-disconnect-any-block", ["C09"], [(RS, '''	if blockDisconnected.BlockHash() != rs.curStamp.Hash {
		return
	}
''', '')], ["C09.G2"])
mut("c09-advance-before-notify", ["C09"], [(RS, '''	err = rs.notifyBlockWithFilter(&header, &newStamp, blockFilter)
	if err != nil {
		return err
	}

	// With the block successfully notified, we'll advance our state to it.
	rs.curHeader = header
	rs.curStamp = newStamp

	return nil''', '''	rs.curHeader = header
	rs.curStamp = newStamp
	err = rs.notifyBlockWithFilter(&header, &newStamp, blockFilter)
	if err != nil {
		return err
	}

	return nil''')], ["C09.G1"])
mut("c09-disconnect-keeps-retry-queue", ["C09"], [(RS, '''				blockRetryQueue.remove(ntfn.Header())

''', '')], ["C09.O2"])
mut("c09-handle-despite-retry-queue", ["C09"], [(RS, '\t\t\t\t\tif blockRetryQueue.peek() != nil {\n\t\t\t\t\t\tlog.Debugf("Stashing %v", ntfn)\n\t\t\t\t\t\tblockRetryQueue.push(ntfn)\n\t\t\t\t\t\tcontinue rescanLoop\n\t\t\t\t\t}\n', "")], ["C09.O2"])
mut("c09-subscribe-next-height", ["C09"], [(RS, '\t\t\t\tblockSubscription, err = chain.Subscribe(\n\t\t\t\t\tuint32(rs.curStamp.Height),\n\t\t\t\t)\n', '\t\t\t\tblockSubscription, err = chain.Subscribe(\n\t\t\t\t\tuint32(nextHeight),\n\t\t\t\t)\n')], ["C09.O2"])
mut("c09-skip-filter-verify", ["C09"], [(RS, '''	if _, err := VerifyBasicBlockFilter(filter, block); err != nil {
		return nil, fmt.Errorf("error verifying filter against "+
			"downloaded block %d (%s), possibly got invalid "+
			"filter from peer: %v", curStamp.Height, curStamp.Hash,
			err)
	}
''', '''	_ = filter
''')], ["C09.O1"])
mut("c09-watchlist-not-extended", ["C09"], [(RS, '''			ro.watchList = append(ro.watchList, pkScript)
''', '')], ["C09.V1"])
mut("c09-pop-before-success", ["C09"], [(RS, '\t\t\t\t\terr := rs.handleBlockConnected(\n\t\t\t\t\t\tretryBlock,\n\t\t\t\t\t)\n\t\t\t\t\tswitch err {', '\t\t\t\t\terr := rs.handleBlockConnected(\n\t\t\t\t\t\tretryBlock,\n\t\t\t\t\t)\n\t\t\t\t\t_ = blockRetryQueue.pop()\n\t\t\t\t\tswitch err {')], ["C09.O2"])
mut("c09-quiet-if-form", ["C09"], [(RS, '''	if blockDisconnected.BlockHash() != rs.curStamp.Hash {
		return
	}
''', '''	if isCurrent := blockDisconnected.BlockHash() == rs.curStamp.Hash; !isCurrent {
		return
	}
''')], [])

# ---- C10 ----
US = "utxoscanner.go"
mut("c10-drop-on-getblock-error", ["C10"], [(US, '''			for _, req := range newReqs {
				req.deliver(nil, err)
			}

''', '')], ["C10.O1"])
mut("c10-filter-error-continue", ["C10"], [(US, '''			match, err := s.cfg.BlockFilterMatches(options, hash)
			if err != nil {
				return reporter.FailRemaining(err)
			}
''', '''			match, err := s.cfg.BlockFilterMatches(options, hash)
			if err != nil {
				return err
			}
''')], ["C10.O2"])
mut("c10-deliver-before-delete", ["C10"], [("batch_spend_reporter.go", '''	delete(b.requests, *outpoint)
	delete(b.initialTxns, *outpoint)
	delete(b.outpoints, *outpoint)

	for _, request := range requests {
		request.deliver(report, err)
	}''', '''	for _, request := range requests {
		request.deliver(report, err)
	}
	delete(b.initialTxns, *outpoint)
	delete(b.outpoints, *outpoint)''')], ["C10.X1"])
mut("c10-dequeue-no-lock", ["C10"], [(US, '''func (s *UtxoScanner) dequeueAtHeight(height uint32) []*GetUtxoRequest {
	s.cv.L.Lock()
	defer s.cv.L.Unlock()
''', '''func (s *UtxoScanner) dequeueAtHeight(height uint32) []*GetUtxoRequest {
''')], ["C10.L1"])
mut("c10-stop-drain-unlocked", ["C10"], [(US, '''	s.cv.L.Lock()
	for !s.pq.IsEmpty() {
		pendingReq := heap.Pop(&s.pq).(*GetUtxoRequest)
		pendingReq.deliver(nil, ErrShuttingDown)
	}
	s.cv.L.Unlock()''', '''	for !s.pq.IsEmpty() {
		pendingReq := heap.Pop(&s.pq).(*GetUtxoRequest)
		pendingReq.deliver(nil, ErrShuttingDown)
	}''')], ["C10.L1"])
mut("c10-blocking-deliver", ["C10"], [(US, '''	select {
	case r.resultChan <- &getUtxoResult{report, err}:
	default:
		log.Warnf("duplicate getutxo result delivered for "+
			"outpoint=%v, spend=%v, err=%v",
			r.Input.OutPoint, report, err)
	}''', '''	r.resultChan <- &getUtxoResult{report, err}''')], ["C10.X1"])
mut("c10-old-requests-dropped", ["C10"], [(US, '''		item := heap.Pop(&s.pq).(*GetUtxoRequest)
		s.nextBatch = append(s.nextBatch, item)''', '''		_ = heap.Pop(&s.pq).(*GetUtxoRequest)''')], ["C10.O1"])
mut("c10-no-final-notify", ["C10"], [(US, '''	reporter.NotifyUnspentAndUnfound()

	return nil''', '''	return nil''')], ["C10.O2"])
mut("c10-quiet-helper-failreqs", ["C10"], [(US, '''			for _, req := range newReqs {
				req.deliver(nil, err)
			}
''', '''			zzFailAll(newReqs, err)
'''), (US, '''// dequeueAtHeight returns all GetUtxoRequests''', '''func zzFailAll(reqs []*GetUtxoRequest, err error) {
	for _, r := range reqs {
		r.deliver(nil, err)
	}
}

// dequeueAtHeight returns all GetUtxoRequests''')], [])

# ---- C12 ----
WM = "query/workmanager.go"
mut("c12-maxretries-keeps-batch", ["C12"], [(WM, '''					batch.errChan <- result.err
					stopTimers(batch)
					delete(currentBatches, batchNum)

					log.Debugf("Canceled batch %v",
						batchNum)''', '''					batch.errChan <- result.err
					stopTimers(batch)

					log.Debugf("Canceled batch %v",
						batchNum)''')], ["C12.X1"])
mut("c12-rem-dec-on-failure", ["C12"], [(WM, '''				if !batch.noRetryMax {
					result.job.tries++
				}
''', '''				if !batch.noRetryMax {
					result.job.tries++
				}
				batch.rem--
''')], ["C12.G1"])
mut("c12-success-before-all-done", ["C12"], [(WM, "				if batch.rem == 0 {", "				if batch.rem <= 1 {")], ["C12.G1"])
mut("c12-failed-job-dropped", ["C12"], [(WM, '''				heap.Push(work, result.job)
				currentQueries[result.job.index] = batchNum
''', '''				currentQueries[result.job.index] = batchNum
''')], ["C12.O1"])
mut("c12-repush-without-index", ["C12"], [(WM, '''				heap.Push(work, result.job)
				currentQueries[result.job.index] = batchNum
''', '''				heap.Push(work, result.job)
''')], ["C12.O1"])
mut("c12-no-exit-sweep", ["C12"], [(WM, '''		for _, b := range currentBatches {
			b.errChan <- ErrWorkManagerShuttingDown
			stopTimers(b)
		}''', '''		for _, b := range currentBatches {
			stopTimers(b)
		}''')], ["C12.X1"])
mut("c12-unbuffered-verdict", ["C12"], [(WM, "	errChan := make(chan error, 1)", "	errChan := make(chan error)")], ["C12.X1"])
mut("c12-timeout-double-verdict", ["C12"], [(WM, '''			case <-batch.timeout:
				batch.errChan <- ErrQueryTimeout
				stopTimers(batch)
				delete(currentBatches, batchNum)
''', '''			case <-batch.timeout:
				batch.errChan <- ErrQueryTimeout
				stopTimers(batch)
''')], ["C12.X1"])
mut("c12-worker-timeout-no-result", ["C12"], [("query/worker.go", '\t\t\t\tjobErr = ErrQueryTimeout\n\t\t\t\tlog.Tracef("Worker %v timeout for request %T "+\n\t\t\t\t\t"with job index %v", peer.Addr(),\n\t\t\t\t\tjob.Req, job.Index())\n\n\t\t\t\tbreak Loop\n', '\t\t\t\tjobErr = ErrQueryTimeout\n\t\t\t\tlog.Tracef("Worker %v timeout for request %T "+\n\t\t\t\t\t"with job index %v", peer.Addr(),\n\t\t\t\t\tjob.Req, job.Index())\n\n\t\t\t\treturn\n')], ["C12.O2"])
mut("c12-worker-timeout-success", ["C12"], [("query/worker.go", '\t\t\t\tjobErr = ErrQueryTimeout\n\t\t\t\tlog.Tracef("Worker %v timeout for request %T "+\n\t\t\t\t\t"with job index %v", peer.Addr(),\n\t\t\t\t\tjob.Req, job.Index())\n\n\t\t\t\tbreak Loop\n', '\t\t\t\tlog.Tracef("Worker %v timeout for request %T "+\n\t\t\t\t\t"with job index %v", peer.Addr(),\n\t\t\t\t\tjob.Req, job.Index())\n\n\t\t\t\tbreak Loop\n')], ["C12.O2"])
mut("c12-quiet-closure-verdict", ["C12"], [(WM, '''				batch.errChan <- result.err
				stopTimers(batch)
				delete(currentBatches, batchNum)

				log.Debugf("Canceled batch %v", batchNum)
				continue Loop
''', '''				e := result.err
				batch.errChan <- e
				delete(currentBatches, batchNum)
				stopTimers(batch)

				log.Debugf("Canceled batch %v", batchNum)
				continue Loop
''')], [])

# ---- C11 ----
MG = "blockntfns/manager.go"
mut("c11-close-before-wait", ["C11"], [(MG, '''		close(s.quit)
		s.wg.Wait()
		close(s.ntfnChan)''', '''		close(s.quit)
		close(s.ntfnChan)
		s.wg.Wait()''')], ["C11.O2"])
mut("c11-register-before-backlog", ["C11"], [(MG, '''	for _, block := range blocks {
		m.notifySubscriber(sub, block)
	}
''', '''	m.subscribers[sub.id] = sub
	for _, block := range blocks {
		m.notifySubscriber(sub, block)
	}
''')], ["C11.O1"])
mut("c11-notify-no-quit", ["C11"], [(MG, '''	select {
	case sub.ntfnQueue.ChanIn() <- block:
	case <-sub.quit:
	case <-m.quit:
		return
	}''', '''	sub.ntfnQueue.ChanIn() <- block''')], ["C11.W1"])
mut("c11-notify-only-mgr-quit", ["C11"], [(MG, '''	case sub.ntfnQueue.ChanIn() <- block:
	case <-sub.quit:
	case <-m.quit:''', '''	case sub.ntfnQueue.ChanIn() <- block:
	case <-m.quit:''')], ["C11.W1"])
mut("c11-cancel-outside-handler", ["C11"], [(MG, '''func (m *SubscriptionManager) cancelSubscription(sub *newSubscription) {
	select {''', '''func (m *SubscriptionManager) cancelSubscription(sub *newSubscription) {
	delete(m.subscribers, sub.id)
	select {''')], ["C11.R1"])
mut("c11-stop-before-join", ["C11"], [(MG, '''	close(m.quit)
	m.wg.Wait()

	var wg sync.WaitGroup
	wg.Add(len(m.subscribers))''', '''	close(m.quit)

	var wg sync.WaitGroup
	wg.Add(len(m.subscribers))''')], ["C11.R1"])
mut("c11-backlog-from-zero", ["C11"], [(MG, '''	blocks, currentHeight, err := m.ntfnSource.NotificationsSinceHeight(
		sub.bestHeight,
	)''', '''	blocks, currentHeight, err := m.ntfnSource.NotificationsSinceHeight(
		sub.bestHeight + 1,
	)''')], ["C11.O1"])
mut("c11-cancel-no-once", ["C11"], [(MG, '''	s.canceled.Do(func() {
		s.ntfnQueue.Stop()
		close(s.quit)
		s.wg.Wait()
		close(s.ntfnChan)
	})''', '''	s.ntfnQueue.Stop()
	close(s.quit)
	s.wg.Wait()
	close(s.ntfnChan)''')], ["C11.O2"])
mut("c11-direct-send-bypass", ["C11"], [(MG, '''	for _, block := range blocks {
		m.notifySubscriber(sub, block)
	}
''', '''	for _, block := range blocks {
		select {
		case sub.ntfnChan <- block:
		default:
			m.notifySubscriber(sub, block)
		}
	}
''')], ["C11.W1"])
mut("c11-forwarder-no-done", ["C11"], [(MG, '''	go func() {
		defer sub.wg.Done()

		for {''', '''	go func() {
		for {''')], ["C11.W1"])

# ---- C15 ----
PB = "pushtx/broadcaster.go"
mut("c15-bare-confirm-send", ["C15"], [(PB, '''	select {
	case b.confChan <- txHash:
	case <-b.quit:
	}
}''', '''	b.confChan <- txHash
}''')], ["C15.B1"])
mut("c15-insert-before-error-check", ["C15"], [(PB, '''			err := b.cfg.Broadcast(req.tx)
			if err != nil {''', '''			err := b.cfg.Broadcast(req.tx)
			transactions[req.tx.TxHash()] = req.tx
			if err != nil {''')], ["C15.G1"])
mut("c15-any-error-accepted", ["C15"], [(PB, '''				if !IsBroadcastError(err, Mempool) {
					log.Errorf("Broadcast attempt "+
						"failed: %v", err)
					req.errChan <- err
					continue
				}''', '''				if !IsBroadcastError(err, Mempool) {
					log.Errorf("Broadcast attempt "+
						"failed: %v", err)
				}''')], ["C15.G1"])
mut("c15-confirmed-treated-as-mempool", ["C15"], [(PB, "				if !IsBroadcastError(err, Mempool) {", "				if !IsBroadcastError(err, Confirmed) {")], ["C15.G1"])
mut("c15-no-dependency-sort", ["C15"], [(PB, '''	sortedTxs := wtxmgr.DependencySort(txs)
	for _, tx := range sortedTxs {''', '''	_ = wtxmgr.DependencySort
	for _, tx := range txs {''')], ["C15.V1"])
mut("c15-release-before-rebroadcast", ["C15"], [(PB, '''			b.rebroadcast(txs, b.confChan)
			rebroadcastSem <- struct{}{}''', '''			rebroadcastSem <- struct{}{}
			b.rebroadcast(txs, b.confChan)''')], ["C15.P1"])
mut("c15-spawn-without-token", ["C15"], [(PB, '''			log.Tracef("Existing rebroadcast still in " +
				"progress")
			return
		}
''', '''			log.Tracef("Existing rebroadcast still in " +
				"progress")
		}
''')], ["C15.P1"])
mut("c15-share-pending-map", ["C15"], [(PB, '''			b.rebroadcast(txs, b.confChan)''', '''			_ = txs
			b.rebroadcast(transactions, b.confChan)''')], ["C15.P1"])
mut("c15-confirmed-not-reported", ["C15"], [(PB, '''			select {
			case confChan <- tx.TxHash():
			case <-b.quit:
				return
			}
			continue
''', '''			continue
''')], ["C15.V1"])
mut("c15-threshold-gt", ["C15"], [("query.go", "if numInvalid/numPeersResponded >= qo.invalidTxThreshold {", "if numInvalid/numPeersResponded > qo.invalidTxThreshold {")], ["C15.T1"])
mut("c15-mempool-fragment-invalid", ["C15"], [("pushtx/error.go", '''		strings.Contains(msg.Reason, "txn-already-in-mempool"):
		code = Mempool''', '''		strings.Contains(msg.Reason, "txn-already-in-mempool"):
		code = Invalid''')], ["C15.T1"])
mut("c15-no-reply-on-accept", ["C15"], [(PB, '''			transactions[req.tx.TxHash()] = req.tx
			req.errChan <- nil
''', '''			transactions[req.tx.TxHash()] = req.tx
''')], ["C15.G1"])

# ---- C19 ----
mut("c19-event-before-write", ["C19"], [(BM, '''	// Write the header batch.
	err = store.WriteHeaders(headerBatch...)
	if err != nil {
		return nil, 0, err
	}
''', '''	for i, header := range matchingBlockHeaders {
		b.onBlockConnected(header, startHeight+uint32(i))
	}
	// Write the header batch.
	err = store.WriteHeaders(headerBatch...)
	if err != nil {
		return nil, 0, err
	}
''')], ["C19.O1"])
mut("c19-wrong-new-tip", ["C19"], [(BM, '''		b.onBlockDisconnected(
			*header, headerHeight, *prevHeader,
		)''', '''		_ = prevHeader
		b.onBlockDisconnected(
			*header, headerHeight, *header,
		)''')], ["C19.O2"])
mut("c19-direct-emit", ["C19"], [(BM, '''	b.newHeadersMtx.Lock()
	b.headerTip = uint32(finalHeight)''', '''	b.onBlockConnected(*msg.Headers[0], uint32(finalHeight))
	b.newHeadersMtx.Lock()
	b.headerTip = uint32(finalHeight)''')], ["C19.W1"])
mut("c19-rollback-stale-mirror", ["C19"], [(BM, '''			b.newFilterHeadersMtx.Lock()
			b.filterHeaderTip = regHeight
			b.filterHeaderTipHash = *newTip
			b.newFilterHeadersMtx.Unlock()
''', '')], ["C19.O3"])
mut("c19-mirror-without-lock", ["C19"], [(BM, '''			b.newFilterHeadersMtx.Lock()
			b.filterHeaderTip = regHeight
			b.filterHeaderTipHash = *newTip
			b.newFilterHeadersMtx.Unlock()
''', '''			b.filterHeaderTip = regHeight
			b.filterHeaderTipHash = *newTip
''')], ["C19.O3"])
mut("c19-height-off-by-one", ["C19"], [(BM, '''		headerHeight := startHeight + uint32(i)
		b.fltrHeaderProgessLogger''', '''		headerHeight := startHeight + uint32(i) + 1
		b.fltrHeaderProgessLogger''')], ["C19.O1"])
mut("c19-backlog-skips-first", ["C19"], [(BM, "	for i := height + 1; i <= bestHeight; i++ {", "	for i := height + 2; i <= bestHeight; i++ {")], ["C19.V1"])
mut("c19-disconnect-before-rollback", ["C19"], [(BM, '''		bs, err = b.cfg.BlockHeaders.RollbackLastBlock()
		if err != nil {
			return err
		}
''', '''		bs, err = b.cfg.BlockHeaders.RollbackLastBlock()
		if err != nil {
			log.Errorf("rollback: %v", err)
		}
''')], ["C19.O2"])
mut("c19-emit-no-quit", ["C19"], [(BM, '''	select {
	case b.blockNtfnChan <- blockntfns.NewBlockConnected(header, height):
	case <-b.quit:
	}''', '''	b.blockNtfnChan <- blockntfns.NewBlockConnected(header, height)''')], ["C19.W1"])

# ---- C01.O1 (typestate) ----
mut("c01-sanity-abort-no-reset", ["C01"], [(BM, '''				hmsg.peer.Disconnect()

				// Earlier headers of this message are already
				// on the header list but will never be written.
				b.resetHeaderListToChainTip()
				return''', '''				hmsg.peer.Disconnect()
				return''')], ["C01.O1"])
mut("c01-write-error-no-reset", ["C01"], [(BM, '''			// Nothing of the batch was stored.
			b.resetHeaderListToChainTip()
			return''', '''			return''')], ["C01.O1"])
mut("c01-checkpoint-abort-no-reset", ["C01"], [(BM, '''				// The store is back at the checkpoint and the
				// batch is dropped, so the list must follow.
				b.resetHeaderListToChainTip()
				return''', '''				return''')], ["C01.O1"])
mut("c01-reset-from-wrong-source", ["C01"], [(BM, '''	header, height, err := b.cfg.BlockHeaders.ChainTip()
	if err != nil {
		log.Criticalf("Unable to re-read block header chain tip: %v",
			err)
		return
	}

	b.headerList.ResetHeaderState(headerlist.Node{
		Header: *header,
		Height: int32(height),
	})''', '''	back := b.headerList.Back()
	b.headerList.ResetHeaderState(headerlist.Node{
		Header: back.Header,
		Height: back.Height,
	})''')], ["C01.O1"])

# ---- C04 ----
mut("c04-donepeer-no-startsync", ["C04"], [(BM, '''			Height: int32(height),
		})
		b.startSync(peers)
	}
}''', '''			Height: int32(height),
		})
	}
}''')], ["C04.O1"])
mut("c04-no-broadcast", ["C04"], [(BM, '''	b.newHeadersMtx.Unlock()
	b.newHeadersSignal.Broadcast()
}''', '''	b.newHeadersMtx.Unlock()
}''')], ["C04.O1"])
mut("c04-drop-inv-case", ["C04"], [(BM, '''			case *invMsg:
				b.handleInvMsg(msg)

''', '')], ["C04.T1"])
mut("c04-no-getheaders-when-behind", ["C04"], [(BM, '''		err := hmsg.peer.PushGetHeadersMsg(locator, &nextHash)
		if err != nil {
			log.Warnf("Failed to send getheaders message to "+
				"peer %s: %s", hmsg.peer.Addr(), err)
			return
		}''', '''		_, _ = locator, nextHash''')], ["C04.O1"])
mut("c04-startsync-no-request", ["C04"], [(BM, '''		_ = b.SyncPeer().PushGetHeadersMsg(locator, stopHash)
	} else {''', '''		_, _ = locator, stopHash
	} else {''')], ["C04.O1"])
mut("c04-newpeer-no-startsync", ["C04"], [(BM, '''	// Start syncing by choosing the best candidate if needed.
	b.startSync(peers)
}''', '''}''')], ["C04.O1"])
mut("c04-listener-unregistered", ["C04"], [(N, '''			OnHeaders:   sp.OnHeaders,
''', '')], ["C04.T1"])
mut("c04-cfheaders-no-wakeup", ["C04"], [(BM, '''	b.newFilterHeadersMtx.Unlock()
	b.newFilterHeadersSignal.Broadcast()
''', '''	b.newFilterHeadersMtx.Unlock()
''')], ["C04.O1"])
mut("c04-addpeer-no-blockmanager", ["C04", "C13"], [(N, '''	// Signal the block manager this peer is a new sync candidate.
	s.blockManager.NewPeer(sp)
''', '')], ["C04.O1", "C13.G1"])
mut("c04-broadcaster-before-submgr", ["C04"], [(N, '''	s.blockSubscriptionMgr.Start()
	if err := s.workManager.Start(); err != nil {''', '''	if err := s.workManager.Start(); err != nil {'''), (N, '''	if s.persistToDisk {
		s.filterBatchWriter.Start()
	}
''', '''	if s.persistToDisk {
		s.filterBatchWriter.Start()
	}
	s.blockSubscriptionMgr.Start()
''')], ["C04.O1"])
mut("c04-tip-update-unlocked", ["C04"], [(BM, '''	b.newHeadersMtx.Lock()
	b.headerTip = uint32(finalHeight)
	b.headerTipHash = *finalHash
	b.newHeadersMtx.Unlock()''', '''	b.headerTip = uint32(finalHeight)
	b.headerTipHash = *finalHash''')], ["C04.O1"])
mut("c04-new-unhandled-msg", ["C04"], [], ["C04.T1"], new_files=[("zz_msg.go", '''package neutrino

type zzPingMsg struct{ peer *ServerPeer }

func (b *blockManager) zzQueuePing(sp *ServerPeer) {
	select {
	case b.peerChan <- &zzPingMsg{peer: sp}:
	case <-b.quit:
	}
}
''')])

# ---- C17 ----
mut("c17-getblock-no-quit-arm", ["C17"], [(Q, '''	errChan := s.workManager.Query([]*query.Request{request}, queryOpts...)
	select {
	case err := <-errChan:
		if err != nil {
			return nil, err
		}
	case <-s.quit:
		return nil, ErrShuttingDown
	}
''', '''	errChan := s.workManager.Query([]*query.Request{request}, queryOpts...)
	select {
	case err := <-errChan:
		if err != nil {
			return nil, err
		}
	}
''')], ["C17.B1"])
mut("c17-batchwriter-before-workmanager", ["C17"], [(N, '''	if s.persistToDisk {
		s.filterBatchWriter.Stop()
	}

	// Signal the remaining goroutines to quit.''', '''	// Signal the remaining goroutines to quit.'''), (N, '''	s.connManager.Stop()
	s.broadcaster.Stop()
''', '''	s.connManager.Stop()
	if s.persistToDisk {
		s.filterBatchWriter.Stop()
	}
	s.broadcaster.Stop()
''')], ["C17.O1"])
mut("c17-cfhandler-no-done", ["C17"], [(BM, '''	go func() {
		defer b.wg.Done()

		log.Debug("Waiting for peer connection...")''', '''	go func() {
		log.Debug("Waiting for peer connection...")''')], ["C17.O2"])
mut("c17-cond-wait-no-quit-poll", ["C17"], [(BM, '''		b.newHeadersSignal.Wait()

		// While we're awake, we'll quickly check to see if we need to
		// quit early.
		select {
		case <-b.quit:
			b.newHeadersSignal.L.Unlock()
			return

		default:
		}
''', '''		b.newHeadersSignal.Wait()
''')], ["C17.O3"])
mut("c17-query-no-reply", ["C17"], [("notifications.go", '''		if state.Count() >= MaxPeers {
			msg.reply <- errors.New("max peers reached")
			return
		}
		for _, peer := range state.persistentPeers {''', '''		if state.Count() >= MaxPeers {
			return
		}
		for _, peer := range state.persistentPeers {''')], ["C17.X1"])
mut("c17-scanner-before-workmanager", ["C17"], [(N, '''	if err := s.workManager.Stop(); err != nil {
		log.Errorf("error stopping work manager: %v", err)
		returnErr = err
	}
	if err := s.utxoScanner.Stop(); err != nil {
		log.Errorf("error stopping utxo scanner: %v", err)
		returnErr = err
	}
''', '''	if err := s.utxoScanner.Stop(); err != nil {
		log.Errorf("error stopping utxo scanner: %v", err)
		returnErr = err
	}
	if err := s.workManager.Stop(); err != nil {
		log.Errorf("error stopping work manager: %v", err)
		returnErr = err
	}
''')], ["C17.S1"])
mut("c17-new-bare-send", ["C17"], [(US, '''	heap.Push(&s.pq, req)

	s.cv.L.Unlock()
	s.cv.Signal()
''', '''	heap.Push(&s.pq, req)

	s.cv.L.Unlock()
	s.cv.Signal()
	s.shutdown <- struct{}{}
''')], ["C17.B1"])
mut("c17-unbuffered-broadcast-reply", ["C17"], [(PB, "	errChan := make(chan error, 1)\n\n	select {\n	case b.broadcastReqs", "	errChan := make(chan error)\n\n	select {\n	case b.broadcastReqs")], ["C17.B1"])
mut("c17-untracked-goroutine", ["C17"], [(BM, '''	log.Trace("Starting block manager")
	b.wg.Add(2)''', '''	log.Trace("Starting block manager")
	go b.cfHandler()
	b.wg.Add(2)''')], ["C17.O2"])
mut("c17-quit-after-wait", ["C17"], [("query/workmanager.go", '''	close(w.quit)
	w.wg.Wait()
''', '''	w.wg.Wait()
	close(w.quit)
''')], ["C17.O1"])
mut("c17-blockmanager-stop-no-wakeup", ["C17"], [(BM, '''			b.newHeadersSignal.Broadcast()
			b.newFilterHeadersSignal.Broadcast()
''', '''			b.newFilterHeadersSignal.Broadcast()
''')], ["C17.O3"])
mut("c17-stop-twice", ["C17"], [(N, '''	// Make sure this only happens once.
	if atomic.AddInt32(&s.shutdown, 1) != 1 {
		return nil
	}

	var returnErr error
	s.connManager.Stop()''', '''	atomic.AddInt32(&s.shutdown, 1)

	var returnErr error
	s.connManager.Stop()''')], ["C17.O1"])
mut("c17-handoff-falls-through", ["C17"], [("notifications.go", '''	select {
	case s.query <- getConnCountMsg{reply: replyChan}:
		return <-replyChan
	case <-s.quit:
		return 0
	}''', '''	select {
	case s.query <- getConnCountMsg{reply: replyChan}:
	case <-s.quit:
	}
	return <-replyChan''')], ["C17.X1"])

# ---- C18 ----
mut("c18-headertip-no-mutex", ["C18"], [(BM, '''	b.newHeadersMtx.Lock()
	b.headerTip = uint32(finalHeight)
	b.headerTipHash = *finalHash
	b.newHeadersMtx.Unlock()''', '''	b.headerTip = uint32(finalHeight)
	b.headerTipHash = *finalHash''')], ["C18.L1"])
mut("c18-plain-read-atomic", ["C18"], [(N, '''	return atomic.LoadUint64(&s.bytesReceived),
		atomic.LoadUint64(&s.bytesSent)''', '''	return atomic.LoadUint64(&s.bytesReceived),
		s.bytesSent''')], ["C18.A1"])
mut("c18-exported-headerlist-reader", ["C18"], [], ["C18.R1"], new_files=[("zz_api.go", '''package neutrino

// ZZTipHeight reports the height of the in-memory header list tail.
func (s *ChainService) ZZTipHeight() int32 {
	return s.blockManager.headerList.Back().Height
}
''')])
mut("c18-syncpeer-write-unlocked", ["C18"], [(BM, '''		b.syncPeerMutex.Lock()
		b.syncPeer = bestPeer
		b.syncPeerMutex.Unlock()''', '''		b.syncPeer = bestPeer''')], ["C18.L1"])
mut("c18-subscribe-no-lock", ["C18"], [(N, '''func (sp *ServerPeer) subscribeRecvMsg(subscription spMsgSubscription) {
	sp.mtxSubscribers.Lock()
	defer sp.mtxSubscribers.Unlock()
''', '''func (sp *ServerPeer) subscribeRecvMsg(subscription spMsgSubscription) {
''')], ["C18.L1"])
mut("c18-rescan-err-unlocked", ["C18"], [(RS, '''		r.errMtx.Lock()
		r.err = err
		r.errMtx.Unlock()''', '''		r.err = err''')], ["C18.L1"])
mut("c18-peerstate-from-api", ["C18"], [], ["C18.R1"], new_files=[("zz_api2.go", '''package neutrino

// ZZSubscriberCount is called on the user's goroutine.
func (s *ChainService) ZZSubscriberCount() int {
	return len(s.peerSubscribers)
}
''')])
mut("c18-lock-leak-root", ["C18"], [(N, '''	sp.mtxSubscribers.Lock()
	defer sp.mtxSubscribers.Unlock()
	sp.recvSubscribers[subscription] = struct{}{}''', '''	sp.mtxSubscribers.Lock()
	sp.recvSubscribers[subscription] = struct{}{}''')], ["C18.L1"])

mut("c05-fetch-without-mutex", ["C05"], [(Q, '''	s.mtxCFilter.Lock()
	defer s.mtxCFilter.Unlock()
''', '')], ["C05.P1"])

# ---- rename / reshape refactors that must stay quiet ----
mut("quiet-rename-semaphore", ["C15", "C17"], [(PB, "rebroadcastSem", "sem", "all")], [])
mut("quiet-rename-noprogress", ["C05", "C06"], [(Q, "noProgress", "nothingYet", "all")], [])
mut("quiet-rename-reply-field", ["C17"], [("notifications.go", "reply:", "answer:", "all"), ("notifications.go", "msg.reply", "msg.answer", "all"), ("notifications.go", "	reply ", "	answer ", "all")], [])
mut("quiet-rename-locals-headers", ["C01", "C02", "C04", "C08", "C18"], [(BM, "headerWriteBatch", "batch", "all"), (BM, "knownWork", "kw", "all"), (BM, "totalWork", "tw", "all")], [])
mut("quiet-rename-bestpeer", ["C04"], [(BM, "bestPeer", "candidate", "all")], [])
mut("quiet-rename-errchan-rescan", ["C17"], [(RS, "	errChan := make(chan error, 1)\n\n	if !atomic", "	done := make(chan error, 1)\n	errChan := done\n\n	if !atomic")], [])

# ---- rules added after the first batch of independently seeded changes ----
mut("c01-no-break-after-checkpoint", ["C01"], [(BM, '''				b.resetHeaderListToChainTip()
				return
			}
			break
		}
	}
''', '''				b.resetHeaderListToChainTip()
				return
			}
		}
	}
''')], ["C01.G5"])
mut("c03-unspendable-exemption", ["C03"], [("verification.go", "case txOut.PkScript[0] == txscript.OP_RETURN:", "case txscript.IsUnspendable(txOut.PkScript):")], ["C03.G4"])
mut("c03-filter-miss-logged-only", ["C03"], [("verification.go", '''			if !match {
				return 0, fmt.Errorf("filter for block %v is "+
					"invalid, outpoint %v:%d script %x "+
					"wasn't matched by filter",
					block.Hash(), tx.Hash(), outIdx,
					txOut.PkScript)
			}''', '''			if !match {
				log.Debugf("filter for block %v is "+
					"invalid, outpoint %v:%d script %x "+
					"wasn't matched by filter",
					block.Hash(), tx.Hash(), outIdx,
					txOut.PkScript)
			}''')], ["C03.G4"])
mut("c07-tip-in-second-tx", ["C07", "C08"], [("headerfs/index.go", '''		return rootBucket.Put(tipKey, chainTipHash[:])
	})
}''', '''		_ = tipKey
		return h.zzSetTip(chainTipHash)
	})
}

func (h *headerIndex) zzSetTip(tip chainhash.Hash) error {
	return walletdb.Update(h.db, func(tx walletdb.ReadWriteTx) error {
		tipKey, err := h.indexType.TipKey()
		if err != nil {
			return err
		}
		return tx.ReadWriteBucket(indexBucket).Put(tipKey, tip[:])
	})
}''')], ["C07.O2", "C08.O5"])
mut("c10-spends-before-new-requests", ["C10"], [("batch_spend_reporter.go", '''	if len(newReqs) > 0 {
		b.addNewRequests(newReqs)
		b.findInitialTransactions(blk, newReqs, height)
	}

	// Next, filter the block for any spends using the current set of
	// watched outpoints. This will include any new requests added above.
	spends := b.notifySpends(blk, height)
''', '''	spends := b.notifySpends(blk, height)
	if len(newReqs) > 0 {
		b.addNewRequests(newReqs)
		b.findInitialTransactions(blk, newReqs, height)
	}
''')], ["C10.O3"])
mut("c09-match-ends-output-scan", ["C09"], [(RS, "			continue txOutLoop\n", "			break txOutLoop\n")], ["C09.V1"])

# ---- helper extraction in the cfilter handler: correct (quiet) and wrong ----
_H_OLD = """	var (
		curHeader  = q.filterHeaders[i]
		prevHeader = q.filterHeaders[i-1]
	)
	filterHeader, err := builder.MakeHeaderForFilter(filter, prevHeader)
	if err != nil {
		return noProgress
	}

	if filterHeader != curHeader {
		return noProgress
	}
"""
_H_CALL = """	if !q.zzMatchesFilterHeader(i, filter) {
		return noProgress
	}
"""
_H_ANCHOR = """// prepareCFiltersQuery creates a cfiltersQuery that can be used to fetch a"""
def _helper(body):
    return """func (q *cfiltersQuery) zzMatchesFilterHeader(i int, filter *gcs.Filter) bool {
	curHeader := q.filterHeaders[i]
	prevHeader := q.filterHeaders[i-1]
	filterHeader, err := builder.MakeHeaderForFilter(filter, prevHeader)
""" + body + """}

""" + _H_ANCHOR
mut("c05-quiet-extract-helper-and", ["C05"], [(Q, _H_OLD, _H_CALL), (Q, _H_ANCHOR, _helper("	return err == nil && filterHeader == curHeader\n"))], [])
mut("c05-quiet-extract-helper-ifs", ["C05"], [(Q, _H_OLD, _H_CALL), (Q, _H_ANCHOR, _helper("	if err != nil {\n		return false\n	}\n	return filterHeader == curHeader\n"))], [])
mut("c05-extract-helper-or", ["C05"], [(Q, _H_OLD, _H_CALL), (Q, _H_ANCHOR, _helper("	return err == nil || filterHeader == curHeader\n"))], ["C05.G1"])
mut("c05-extract-helper-wrong-index", ["C05"], [(Q, _H_OLD, _H_CALL.replace("(i, filter)", "(i-1, filter)")), (Q, _H_ANCHOR, _helper("	return err == nil && filterHeader == curHeader\n"))], ["C05.V1"])

# ---- rules added after the second batch of independently seeded changes ----
mut("c15-buffered-confchan", ["C15"], [(PB, "confChan:      make(chan chainhash.Hash),", "confChan:      make(chan chainhash.Hash, 20),")], ["C15.B2"])
mut("c07-aliased-hash-cells", ["C07"], [(ST, '''	headersToTruncate := make([]*chainhash.Hash, len(headers)-1)
	for i, header := range headers[1:] {
		blkHash := header.BlockHash()
		headersToTruncate[i] = &blkHash
	}''', '''	var blkHash chainhash.Hash
	headersToTruncate := make([]*chainhash.Hash, len(headers)-1)
	for i := range headers[1:] {
		blkHash = headers[i+1].BlockHash()
		headersToTruncate[i] = &blkHash
	}''')], ["C07.V2"])
mut("c18-timer-reads-batch-record", ["C18"], [(WM, '''		gen := b.progressGen
		bn := batchNum
		b.progressTimer = time.AfterFunc(b.progressTimeout, func() {
			select {
			case w.progressWakes <- progressWake{
				batchNum: bn,
				gen:      gen,
			}:''', '''		bn := batchNum
		b.progressTimer = time.AfterFunc(b.progressTimeout, func() {
			select {
			case w.progressWakes <- progressWake{
				batchNum: bn,
				gen:      b.progressGen,
			}:''')], ["C18.R2"])
mut("c14-tip-hash-only-on-last-batch", ["C14"], [(HI, '''		chainTipBlockHeader := blockHeaders[len(blockHeaders)-1]
		setLastFilterHeaderHash(filterHeaders, chainTipBlockHeader)
	}
''', '''		if batchEnd >= endHeight {
			chainTipBlockHeader := blockHeaders[len(blockHeaders)-1]
			setLastFilterHeaderHash(filterHeaders, chainTipBlockHeader)
		}
	}
''')], ["C14.G2"])
mut("c01-prev-checkpoint-not-strict", ["C01", "C04"], [(BM, '''		if height <= checkpoints[i].Height {
			break
		}
		prevCheckpoint = &checkpoints[i]''', '''		if height < checkpoints[i].Height {
			break
		}
		prevCheckpoint = &checkpoints[i]''')], ["C01.G6", "C04.O2"])
mut("c01-last-header-not-linked", ["C01"], [(BM, '''	for _, blockHeader := range headers {
		blockHash := blockHeader.BlockHash()

		// If we haven't yet set lastHeader, set it now.''', '''	for i, blockHeader := range headers {
		if i == len(headers)-1 {
			break
		}
		blockHash := blockHeader.BlockHash()

		// If we haven't yet set lastHeader, set it now.''')], ["C01.G3"])
mut("quiet-prev-checkpoint-ge-form", ["C01", "C04"], [(BM, '''		if height <= checkpoints[i].Height {
			break
		}
		prevCheckpoint = &checkpoints[i]''', '''		if !(checkpoints[i].Height < height) {
			break
		}
		prevCheckpoint = &checkpoints[i]''')], [])

# ---- rules added after the third batch of independently seeded changes ----
HL = "headerlist/bounded_header_list.go"
FDB = "filterdb/db.go"
BU = "banman/util.go"
IT = "chainimport/iter.go"
mut("c01-headerlist-prev-after-advance", ["C01"], [(HL, '''	var prevElem *Node
	if b.tailPtr != -1 {
		prevElem = &b.chain[b.tailPtr]
	}

	// With a maxSize of one''', '''	var prevElem *Node

	// With a maxSize of one'''), (HL, '''	chainIndex := b.tailPtr
	b.chain[chainIndex] = n
''', '''	chainIndex := b.tailPtr
	if chainIndex != b.headPtr {
		prevElem = &b.chain[b.tailPtr]
	}
	b.chain[chainIndex] = n
''')], ["C01.V3"])
mut("c05-putfilter-raw-bytes", ["C05"], [(FDB, "	bytes, err := filter.NBytes()\n	if err != nil {\n		return err\n	}\n\n	return bucket.Put(hash[:], bytes)", "	bytes, err := filter.Bytes()\n	if err != nil {\n		return err\n	}\n\n	return bucket.Put(hash[:], bytes)")], ["C05.T1"])
mut("c15-empty-pending-skips-token-return", ["C15"], [(PB, '''		// Make a copy of the current set of transactions to hand to
		// the goroutine.''', '''		if len(transactions) == 0 {
			return
		}

		// Make a copy of the current set of transactions to hand to
		// the goroutine.''')], ["C15.P1"])
mut("c11-height-filter-per-subscriber", ["C11", "C19"], [(MG, '''	for _, subscriber := range m.subscribers {
		m.notifySubscriber(subscriber, ntfn)''', '''	for _, subscriber := range m.subscribers {
		if _, ok := ntfn.(*Connected); ok && ntfn.Height() <= subscriber.bestHeight {
			continue
		}
		m.notifySubscriber(subscriber, ntfn)''')], ["C11.W1", "C19.W2"])
mut("c13-parse-by-length", ["C13"], [(BU, "	case ip.To4() != nil:\n		if mask == nil {\n			mask = defaultIPv4Mask", "	case len(ip) == net.IPv4len:\n		if mask == nil {\n			mask = defaultIPv4Mask")], ["C13.T2"])
mut("c13-port-not-stripped", ["C13"], [(BU, '''	host, _, err := net.SplitHostPort(addr)
	if err != nil {
		// Address doesn't include a port.
		host = addr
	}
''', '''	host := addr
''')], ["C13.T2"])
mut("c10-drain-after-wait", ["C10"], [(US, '''		// Re-queue previously skipped requests for next batch.
		for _, request := range s.nextBatch {
			heap.Push(&s.pq, request)
		}
		s.nextBatch = nil

''', ''), (US, '''		req := s.pq.Peek()
		s.cv.L.Unlock()''', '''		for _, request := range s.nextBatch {
			heap.Push(&s.pq, request)
		}
		s.nextBatch = nil

		req := s.pq.Peek()
		s.cv.L.Unlock()''')], ["C10.O4"])
mut("c12-one-worker-per-address", ["C12"], [(WM, '''		case peer := <-peersConnected:
''', '''		case peer := <-peersConnected:
			if _, ok := workers[peer.Addr()]; ok {
				continue Loop
			}
''')], ["C12.O3"])
mut("c07-filter-rollback-reads-after-truncate", ["C07"], [(ST, '''	newHeaderTip, err := f.readHeader(newHeightTip)
	if err != nil {
		return nil, err
	}

	// Now that we have the information we need''', '''	// Now that we have the information we need'''), (ST, '''	// TODO(roasbeef): return chain hash also?
	return &BlockStamp{
		Height: int32(newHeightTip),
		Hash:   *newHeaderTip,''', '''	newHeaderTip, err := f.readHeader(newHeightTip)
	if err != nil {
		return nil, err
	}

	// TODO(roasbeef): return chain hash also?
	return &BlockStamp{
		Height: int32(newHeightTip),
		Hash:   *newHeaderTip,''')], ["C07.G2"])
mut("quiet-filter-rollback-explicit-genesis-check", ["C07"], [(ST, '''	newHeightTip := chainTipHeight - 1
	newHeaderTip, err := f.readHeader(newHeightTip)''', '''	if chainTipHeight == 0 {
		return nil, fmt.Errorf("cannot roll back past genesis")
	}
	newHeightTip := chainTipHeight - 1
	newHeaderTip, err := f.readHeader(newHeightTip)''')], [])
mut("c18-goroutine-reads-shared-map", ["C18"], [(Q, "		go func(sp *ServerPeer, peerQuit <-chan struct{}) {", "		go func(sp *ServerPeer) {"), (Q, "				case <-peerQuit:\n					return\n				case <-timeout:", "				case <-peerQuits[sp.Addr()]:\n					return\n				case <-timeout:"), (Q, "		}(sp, peerQuits[sp.Addr()])", "		}(sp)")], ["C18.R3"])
mut("c14-batch-iterator-exclusive-end", ["C14"], [(IT, "		for currentIdx <= endIdx {", "		for currentIdx < endIdx {")], ["C14.V1"])
mut("c14-iterator-exclusive-end", ["C14"], [(IT, "		for idx := startIdx; idx <= endIdx; idx++ {", "		for idx := startIdx; idx < endIdx; idx++ {")], ["C14.V1"])
mut("quiet-batch-iterator-negated-form", ["C14"], [(IT, "		for currentIdx <= endIdx {", "		for !(currentIdx > endIdx) {")], [])
mut("c04-inv-locator-tip-only", ["C04"], [(BM, '''			knownLocator, err := b.cfg.BlockHeaders.LatestBlockLocator()
			if err == nil {
				locator = append(locator, knownLocator...)
			}

			// Get headers based on locator.
			err = imsg.peer.PushGetHeadersMsg(locator,''', '''			// Get headers based on locator.
			err := imsg.peer.PushGetHeadersMsg(locator,''')], ["C04.O3"])
mut("quiet-parseipnet-netip-unmap", ["C13"], [(BU, '''	ip := net.ParseIP(host)
	switch {
	case ip.To4() != nil:''', '''	ip := net.ParseIP(host)
	if a, perr := netip.ParseAddr(host); perr == nil && a.Unmap().Is4() {
		b4 := a.Unmap().As4()
		ip = net.IP(b4[:])
	}
	switch {
	case ip.To4() != nil:'''), (BU, 'import (\n', 'import (\n\t"net/netip"\n')], [])

# ---- rules added after the fourth batch of independently seeded changes ----
BSR = "batch_spend_reporter.go"
BST = "banman/store.go"
IDX = "headerfs/index.go"
HF = "headerfs/file.go"
mut("c06-cache-put-under-response-hash", ["C06"], [(Q, "	_, err = s.BlockCache.Put(*inv, &CacheableBlock{Block: foundBlock})", "	respInv := wire.NewInvVect(invType, foundBlock.Hash())\n	_, err = s.BlockCache.Put(*respInv, &CacheableBlock{Block: foundBlock})")], ["C06.V2"])
mut("c11-ids-from-registry-size", ["C11"], [(MG, "		id:         atomic.AddUint64(&m.subscriberCounter, 1),\n", ""), (MG, '''	log.Infof("Registering block subscription: id=%d", sub.id)''', '''	sub.id = uint64(len(m.subscribers)) + 1
	log.Infof("Registering block subscription: id=%d", sub.id)''')], ["C11.V1"])
mut("c10-spend-report-shared-per-tx", ["C10"], [(BSR, '''		// Check each input to see if this transaction spends one of our
		// watched outpoints.
		for i, ti := range tx.TxIn {''', '''		spend := &SpendReport{
			SpendingTx:       tx,
			SpendingTxHeight: height,
		}
		for i, ti := range tx.TxIn {'''), (BSR, '''			spend := &SpendReport{
				SpendingTx:         tx,
				SpendingInputIndex: uint32(i),
				SpendingTxHeight:   height,
			}

			spends[outpoint] = spend''', '''			spend.SpendingInputIndex = uint32(i)
			spends[outpoint] = spend''')], ["C10.V1"])
mut("c10-initial-output-unchecked-index", ["C10"], [(BSR, '''			if op.Index >= uint32(len(txOuts)) {''', '''			if op.Index > uint32(len(txOuts)) {''')], ["C10.V1"])
mut("c10-block-index-of-request", ["C10"], [(BSR, '''		for _, req := range txidReqs {
			op := req.Input.OutPoint''', '''		for i, req := range txidReqs {
			op := req.Input.OutPoint'''), (BSR, "	for i, tx := range block.Transactions {\n		// If our reverse index has been cleared, we are done.", "	for _, tx := range block.Transactions {\n		// If our reverse index has been cleared, we are done.")], ["C10.V1"])
mut("c02-known-work-list-only", ["C02", "C04"], [(BM, '''			knownEl := b.headerList.Back()
			var knownHead *wire.BlockHeader
			for j := uint32(prevNode.Height); j > backHeight; j-- {
				if knownEl != nil {''', '''			knownEl := b.headerList.Back()
			var knownHead *wire.BlockHeader
			for j := uint32(prevNode.Height); j > backHeight && knownEl != nil; j-- {
				if knownEl != nil {''')], ["C02.V3", "C04.V1"])
mut("c13-ban-skips-existing-record", ["C13", "C06", "C03"], [(BST, '''		k := ipNetBuf.Bytes()

		return addBannedIPNet(banIndex, reasonIndex, k, reason, duration)''', '''		k := ipNetBuf.Bytes()

		if banIndex.Get(k) != nil {
			return nil
		}

		return addBannedIPNet(banIndex, reasonIndex, k, reason, duration)''')], ["C13.O3", "C06.O2", "C03.O3"])
mut("c15-wrapped-reject-error", ["C15"], [(Q, "		return firstRejectWithCode(mostRejectedCode)\n", '		return fmt.Errorf("rejected by all peers: %w", firstRejectWithCode(mostRejectedCode))\n')], ["C15.T2"])
mut("quiet-c15-error-via-local", ["C15"], [(Q, "		return firstRejectWithCode(mostRejectedCode)\n", "		rejectErr := firstRejectWithCode(mostRejectedCode)\n		return rejectErr\n")], [])
mut("c09-input-skipped-on-script-error", ["C09"], [(RS, '''	for _, in := range tx.MsgTx().TxIn {
		for _, input := range ro.watchInputs {''', '''	for _, in := range tx.MsgTx().TxIn {
		if len(in.SignatureScript) == 0 && len(in.Witness) == 0 {
			continue
		}
		for _, input := range ro.watchInputs {''')], ["C09.V2"])
mut("c07-drop-empty-sub-bucket", ["C07"], [(IDX, '''			if err := subBucket.Delete(hashBytes); err != nil {
				return err
			}
		}
''', '''			if err := subBucket.Delete(hashBytes); err != nil {
				return err
			}
		}
		if k, _ := subBucket.ReadCursor().First(); k == nil {
			if err := rootBucket.DeleteNestedBucket([]byte(prefix)); err != nil {
				return err
			}
		}
''')], ["C07.W2"])
mut("c05-target-by-position", ["C05"], [(Q, "	if response.BlockHash == q.targetHash {\n		q.targetFilter = filter", "	if i == 1 {\n		q.targetFilter = filter")], ["C05.V3"])
mut("c03-filter-query-ends-early", ["C03"], [(BM, '''				filterResponses[sp.Addr()] = gcsFilter
''', '''				filterResponses[sp.Addr()] = gcsFilter
				if len(filterResponses) >= 2 {
					close(quit)
				}
''')], ["C03.O4"])
mut("c14-overlap-end-not-verified-when-extending", ["C14"], [(HI, '''		if overlapEnd > overlapStart {
			if err = h.verifyHeadersAtTargetHeight(''', '''		if overlapEnd > overlapStart && overlapEnd >= importEndHeight {
			if err = h.verifyHeadersAtTargetHeight(''')], ["C14.G3"])
mut("c18-shared-read-buffer", ["C18"], [(HF, "	rawHeader := make([]byte, headerSize)\n	if _, err := h.file.ReadAt(rawHeader, int64(seekDist)); err != nil {", "	rawHeader := sharedReadBuf[:headerSize]\n	if _, err := h.file.ReadAt(rawHeader, int64(seekDist)); err != nil {")], ["C18.R4"], new_files=[("headerfs/zz_buf.go", "package headerfs\n\nvar sharedReadBuf = make([]byte, 80)\n")])
mut("c01-prev-hash-carried-over", ["C01"], [(BM, '''		prevHash := prevNode.Header.BlockHash()
		if prevHash.IsEqual(&blockHeader.PrevBlock) {''', '''		prevHash := prevNode.Header.BlockHash()
		if i > 0 {
			prevHash = msg.Headers[i-1].BlockHash()
		}
		if prevHash.IsEqual(&blockHeader.PrevBlock) {''')], ["C01.V4"])
mut("c02-known-work-off-by-one", ["C02"], [(BM, "			for j := uint32(prevNode.Height); j > backHeight; j-- {", "			for j := uint32(prevNode.Height); j >= backHeight; j-- {")], ["C02.V3"])
mut("quiet-known-work-counting-up", ["C02", "C04"], [(BM, "			for j := uint32(prevNode.Height); j > backHeight; j-- {", "			for j := backHeight; j < uint32(prevNode.Height); j++ {")], [])
mut("quiet-known-work-bound-plus-one", ["C02", "C04"], [(BM, "			for j := uint32(prevNode.Height); j > backHeight; j-- {", "			for j := uint32(prevNode.Height); j >= backHeight+1; j-- {")], [])

# ---- engine E: full-range loops ----
BHV = "chainimport/block_headers_validator.go"
FHV = "chainimport/filter_headers_validator.go"
mut("c14-validatebatch-skips-last-pair", ["C14"], [(BHV, "	for i := 1; i < len(headers); i++ {", "	for i := 1; i < len(headers)-1; i++ {")], ["C14.V2"])
mut("c14-validatebatch-starts-at-two", ["C14"], [(BHV, "	for i := 1; i < len(headers); i++ {", "	for i := 2; i < len(headers); i++ {")], ["C14.V2"])
mut("c14-filter-validatebatch-early-break", ["C14"], [(FHV, "	for _, header := range headers {\n		if err := v.ValidateSingle(header); err != nil {", "	for i, header := range headers {\n		if i >= 2000 {\n			break\n		}\n		if err := v.ValidateSingle(header); err != nil {")], ["C14.V2"])
mut("quiet-validatebatch-forward-pairs", ["C14"], [(BHV, "	for i := 1; i < len(headers); i++ {\n		if err := v.ValidatePair(headers[i-1], headers[i]); err != nil {", "	for i := 0; i < len(headers)-1; i++ {\n		if err := v.ValidatePair(headers[i], headers[i+1]); err != nil {")], [])
mut("quiet-filter-validatebatch-index-loop", ["C14"], [(FHV, "	for _, header := range headers {\n		if err := v.ValidateSingle(header); err != nil {", "	for i := 0; i <= len(headers)-1; i++ {\n		header := headers[i]\n		if err := v.ValidateSingle(header); err != nil {")], [])
mut("c03-verifycheckpoint-ignores-last-hash", ["C03"], [(BM, "	for _, hash := range cfheaders.FilterHashes {\n		lastHeader = chainhash.DoubleHashH(", "	for _, hash := range cfheaders.FilterHashes[:len(cfheaders.FilterHashes)-1] {\n		lastHeader = chainhash.DoubleHashH(")], ["C03.V2"])
mut("c19-first-committed-header-not-announced", ["C19"], [(BM, "	for i, header := range matchingBlockHeaders {\n		headerHeight := startHeight + uint32(i)", "	for i, header := range matchingBlockHeaders {\n		if i == 0 && len(matchingBlockHeaders) > 1 {\n			continue\n		}\n		headerHeight := startHeight + uint32(i)")], ["C19.X1"])
mut("c19-event-height-off-by-one", ["C19"], [(BM, "		headerHeight := startHeight + uint32(i)\n		b.fltrHeaderProgessLogger", "		headerHeight := startHeight + uint32(i) + 1\n		b.fltrHeaderProgessLogger")], ["C19.X1"])
mut("c01-link-check-stops-early", ["C01"], [(BM, '''	for _, blockHeader := range headers {
		blockHash := blockHeader.BlockHash()

		// If we haven't yet set lastHeader, set it now.''', '''	for i, blockHeader := range headers {
		if i > 1000 {
			return true
		}
		blockHash := blockHeader.BlockHash()

		// If we haven't yet set lastHeader, set it now.''')], ["C01.G3"])
CDC = "banman/codec.go"
mut("c13-key-without-mask", ["C13"], [(CDC, '''	if _, err := w.Write([]byte(ipNet.Mask)); err != nil {
		return err
	}

	return nil''', '''	return nil''')], ["C13.T3"])
mut("c13-key-tag-swapped", ["C13"], [(CDC, "		ip = ipNet.IP.To4()\n		ipType = ipv4", "		ip = ipNet.IP.To4()\n		ipType = ipv6")], ["C13.T3"])
mut("c13-key-write-error-ignored", ["C13"], [(CDC, '''	if _, err := w.Write(ip); err != nil {
		return err
	}''', '''	_, _ = w.Write(ip)''')], ["C13.T3"])
mut("c13-expiry-little-endian-read", ["C13"], [(BST, "	banExpiration := time.Unix(int64(byteOrder.Uint64(v)), 0)", "	banExpiration := time.Unix(int64(binary.LittleEndian.Uint64(v)), 0)")], ["C13.T4"])
mut("c13-expiry-without-now", ["C13"], [(BST, "	banExpiration := time.Now().Add(duration)", "	banExpiration := time.Time{}.Add(duration)")], ["C13.T4"])
mut("c13-buckets-swapped-in-reader", ["C13"], [(BST, "	v := banIndex.Get(ipNetKey)\n	if v == nil {", "	v := reasonIndex.Get(ipNetKey)\n	if v == nil {")], ["C13.T4"])

# ---- rules added after the fifth batch of independently seeded changes ----
LRUF = "cache/lru/lru.go"
mut("c10-watchlist-cache-keyed-by-script", ["C10"], [(BSR, "	outpoints map[wire.OutPoint][]byte", "	outpoints map[string][]byte"), (BSR, "		outpoints:   make(map[wire.OutPoint][]byte),", "		outpoints:   make(map[string][]byte),"), (BSR, "	delete(b.outpoints, *outpoint)\n", ""), (BSR, "	for _, request := range requests {\n		request.deliver(report, err)", "	for _, request := range requests {\n		delete(b.outpoints, string(request.Input.PkScript))\n		request.deliver(report, err)"), (BSR, "		if _, ok := b.outpoints[outpoint]; !ok {\n			entry := req.Input.PkScript\n			b.outpoints[outpoint] = entry", "		if _, ok := b.outpoints[string(req.Input.PkScript)]; !ok {\n			entry := req.Input.PkScript\n			b.outpoints[string(entry)] = entry")], ["C10.V2"])
mut("c16-evict-callback-without-lock", ["C16"], [(LRUF, '''			c.onDelete.WhenSome(func(cb OnDeleteCallback[K, V]) {
				cb(ce.key, ce.value)
			})

			// Remove the element from the cache.''', '''			c.onDelete.WhenSome(func(cb OnDeleteCallback[K, V]) {
				c.mtx.Unlock()
				defer c.mtx.Lock()
				cb(ce.key, ce.value)
			})

			// Remove the element from the cache.''')], ["C16.P1"])
mut("c07-compensation-after-failed-append", ["C07"], [(ST, "	if err := h.appendRaw(headerBuf.Bytes()); err != nil {\n		return err\n	}", "	if err := h.appendRaw(headerBuf.Bytes()); err != nil {\n		_ = h.truncateHeaders(uint32(len(hdrs)), h.indexType)\n		return err\n	}")], ["C07.O1"])
mut("c09-rewind-by-height", ["C09"], [(RS, "		header, height, err = chain.GetBlockHeader(&curHeader.PrevBlock)\n		if err != nil {\n			return rewound, err\n		}\n", "		height = uint32(curStamp.Height - 1)\n		header, err = chain.GetBlockHeaderByHeight(height)\n		if err != nil {\n			return rewound, err\n		}\n")], ["C09.G4"])
mut("c19-bulk-rollback-without-events", ["C19"], [(BM, '''	for uint32(bs.Height) > height {
		header, headerHeight, err := b.cfg.BlockHeaders.FetchHeader(&bs.Hash)''', '''	if headerHeight > regHeight && regHeight >= height {
		bs, err = b.cfg.BlockHeaders.RollbackBlockHeaders(headerHeight - regHeight)
		if err != nil {
			return err
		}
	}
	for uint32(bs.Height) > height {
		header, headerHeight, err := b.cfg.BlockHeaders.FetchHeader(&bs.Hash)''')], ["C19.O2"])
mut("c01-next-checkpoint-not-strict", ["C01"], [(BM, "		if height >= checkpoints[i].Height {\n			break\n		}\n		nextCheckpoint = &checkpoints[i]", "		if height > checkpoints[i].Height {\n			break\n		}\n		nextCheckpoint = &checkpoints[i]")], ["C01.G7"])
mut("quiet-next-checkpoint-negated-form", ["C01"], [(BM, "		if height >= checkpoints[i].Height {\n			break\n		}\n		nextCheckpoint = &checkpoints[i]", "		if !(checkpoints[i].Height > height) {\n			break\n		}\n		nextCheckpoint = &checkpoints[i]")], [])
mut("c04-late-answers-reach-callback", ["C04"], [(Q, '''			select {
			case <-peerQuits[sm.sp.Addr()]:
			default:
				checkResponse(sm.sp, sm.msg, queryQuit,
					peerQuits[sm.sp.Addr()])
			}''', '''			checkResponse(sm.sp, sm.msg, queryQuit,
				peerQuits[sm.sp.Addr()])''')], ["C04.O4"])
mut("c05-nil-target-returned", ["C05"], [(Q, '''	if filterQuery.targetFilter == nil {
		return nil, ErrFilterFetchFailed
	}
''', '')], ["C05.V4"])
mut("c15-interval-via-time-after", ["C15"], [(PB, "		case <-reBroadcastTicker.C:", "		case <-time.After(b.cfg.RebroadcastInterval):")], ["C15.V2"])
mut("c18-stop-reads-registry-before-join", ["C18", "C11"], [(MG, '''	close(m.quit)
	m.wg.Wait()
''', '''	close(m.quit)
''')], ["C18.R5", "C11.R1"])

# ---- rules added after the sixth batch of independently seeded changes ----
mut("c10-dequeue-before-hash-lookup", ["C10"], [(US, '''		hash, err := s.cfg.GetBlockHash(int64(height))
		if err != nil {
			return reporter.FailRemaining(err)
		}

		// If there are any new requests that can safely be added to this batch,
		// then try and fetch them.
		newReqs := s.dequeueAtHeight(height)
''', '''		newReqs := s.dequeueAtHeight(height)

		hash, err := s.cfg.GetBlockHash(int64(height))
		if err != nil {
			return reporter.FailRemaining(err)
		}
''')], ["C10.O1"])
mut("c12-handover-without-exit-arm", ["C12"], [(WM, '''				// Remove workers no longer active.
				case <-r.onExit:
					delete(workers, p)
					continue

''', '')], ["C12.O4"])
mut("c03-filter-rollback-decided-once", ["C03", "C04"], [(BM, '''	for uint32(bs.Height) > height {
		header, headerHeight, err := b.cfg.BlockHeaders.FetchHeader(&bs.Hash)''', '''	caughtUp := uint32(bs.Height) <= regHeight
	for uint32(bs.Height) > height {
		header, headerHeight, err := b.cfg.BlockHeaders.FetchHeader(&bs.Hash)'''), (BM, "		if uint32(bs.Height) <= regHeight {\n			newFilterTip, err := b.cfg.RegFilterHeaders.RollbackLastBlock(newTip)", "		if caughtUp {\n			newFilterTip, err := b.cfg.RegFilterHeaders.RollbackLastBlock(newTip)")], ["C03.O2", "C04.O5"])
mut("c07-short-range-read-accepted", ["C07"], [(HF, '''	_, err := f.ReadAt(rawHeaderBytes, int64(seekDistance))
	if err != nil {
		return nil, err
	}

	return bytes.NewReader(rawHeaderBytes), nil''', '''	n, err := f.ReadAt(rawHeaderBytes, int64(seekDistance))
	if err != nil && err != io.EOF {
		return nil, err
	}

	return bytes.NewReader(rawHeaderBytes[:n]), nil''')], ["C07.O3"])
mut("c03-checkpoints-compared-up-to-shortest", ["C03"], [(BM, "	maxLen := 0\n	for _, checkpoints := range cp {\n		if len(checkpoints) > maxLen {\n			maxLen = len(checkpoints)", "	maxLen := 1 << 30\n	for _, checkpoints := range cp {\n		if len(checkpoints) < maxLen {\n			maxLen = len(checkpoints)")], ["C03.V3"])
mut("c19-fallible-step-between-commit-and-events", ["C19"], [(BM, '''	// Notify subscribers, and also update the filter header progress
	// logger at the same time.
	for i, header := range matchingBlockHeaders {''', '''	if _, _, err := store.ChainTip(); err != nil {
		return nil, 0, err
	}

	// Notify subscribers, and also update the filter header progress
	// logger at the same time.
	for i, header := range matchingBlockHeaders {''')], ["C19.O5"])

# ---- rules added after the seventh batch of seeded changes ----
mut("c02-reorg-parent-height-offset-by-known-prefix", ["C02"], [(BM, "				prevNodeHeight := backHeight + uint32(j)\n", "				prevNodeHeight := backHeight + uint32(i+j)\n")], ["C02.V4"])
mut("c02-reorg-node-height-without-plus-one", ["C02"], [(BM, "					Height: int32(backHeight+1) + int32(j),", "					Height: int32(backHeight) + int32(j),")], ["C02.V4"])
mut("c02-quiet-reorg-parent-height-respelled", ["C02"], [(BM, "				prevNodeHeight := backHeight + uint32(j)\n", "				prevNodeHeight := uint32(j) + backHeight + 1 - 1\n")], [])
mut("c03-overlong-cfheaders-answer-accepted", ["C03"], [(BM, "					len(m.FilterHashes) == numHeaders {", "					len(m.FilterHashes) >= numHeaders {")], ["C03.G5"])
mut("c03-cfheaders-answer-type-not-compared", ["C03"], [(BM, "				if m.StopHash == stopHash &&\n					m.FilterType == fType &&\n", "				if m.StopHash == stopHash &&\n")], ["C03.G5"])
mut("c04-done-peer-early-return-for-non-candidates", ["C04"], [(BM, '	log.Infof("Lost peer %s", sp)\n', '	log.Infof("Lost peer %s", sp)\n	if !b.isSyncCandidate(sp) {\n		return\n	}\n')], ["C04.O1"])
mut("c05-target-cached-under-last-filter", ["C05"], [(Q, "	// The headerIndex is empty and so this query is complete.\n", "	if _, err := q.cs.putFilterToCache(&q.targetHash, dbFilterType, filter); err != nil {\n		log.Warnf(\"cache: %v\", err)\n	}\n	// The headerIndex is empty and so this query is complete.\n")], ["C05.V5"])
mut("c05-quiet-target-recached-under-its-own-hash", ["C05"], [(Q, "	// The headerIndex is empty and so this query is complete.\n", "	if q.targetFilter != nil {\n		if _, err := q.cs.putFilterToCache(&q.targetHash, dbFilterType, q.targetFilter); err != nil {\n			log.Warnf(\"cache: %v\", err)\n		}\n	}\n	// The headerIndex is empty and so this query is complete.\n")], [])
mut("c07-pooled-buffer-reset-only-after-success", ["C07"], [(ST, "	headerBuf := headerBufPool.Get().(*bytes.Buffer)\n	headerBuf.Reset()\n	defer headerBufPool.Put(headerBuf)\n\n	// Next, we'll write out all the passed headers in series into the\n	// buffer we just extracted from the pool.\n	for _, header := range hdrs {\n		if err := header.Serialize(headerBuf); err != nil {", "	headerBuf := headerBufPool.Get().(*bytes.Buffer)\n	defer headerBufPool.Put(headerBuf)\n\n	// Next, we'll write out all the passed headers in series into the\n	// buffer we just extracted from the pool.\n	for _, header := range hdrs {\n		if err := header.Serialize(headerBuf); err != nil {")], ["C07.O4"])
mut("c07-quiet-pooled-buffer-reset-when-put-back", ["C07"], [(ST, "	headerBuf := headerBufPool.Get().(*bytes.Buffer)\n	headerBuf.Reset()\n	defer headerBufPool.Put(headerBuf)\n\n	// Next, we'll write out all the passed headers in series into the\n	// buffer we just extracted from the pool.\n	for _, header := range hdrs {\n		if err := header.Serialize(headerBuf); err != nil {", "	headerBuf := headerBufPool.Get().(*bytes.Buffer)\n	headerBuf.Reset()\n	defer func() {\n		headerBuf.Reset()\n		headerBufPool.Put(headerBuf)\n	}()\n\n	// Next, we'll write out all the passed headers in series into the\n	// buffer we just extracted from the pool.\n	for _, header := range hdrs {\n		if err := header.Serialize(headerBuf); err != nil {")], [])
mut("c08-partial-record-not-trimmed-on-open", ["C08"], [(ST, "	if err := headerFile.trimPartialHeader(hType); err != nil {\n		return nil, err\n	}\n", "")], ["C08.O7"])
mut("c08-trim-error-ignored", ["C08"], [(ST, "	if err := headerFile.trimPartialHeader(hType); err != nil {\n		return nil, err\n	}\n", "	_ = headerFile.trimPartialHeader(hType)\n")], ["C08.O7"])
mut("c08-trim-cuts-a-whole-record-too", ["C08"], [(ST, "	return h.truncateFile(fileSize - partialLength)", "	return h.truncateFile(fileSize - partialLength - int64(headerTypeSize))")], ["C08.O7"])
mut("c09-watched-address-scripts-cached-once", ["C09"], [(RS, "		for _, addr := range ro.watchAddrs {\n			// We'll convert the address into its matching pkScript\n			// to in order to check for a match.\n			addrScript, err := txscript.PayToAddrScript(addr)\n			if err != nil {\n				return false, err\n			}\n", "		for _, addrScript := range addrScriptsOnce(ro) {\n")], ["C09.V3"], new_files=[("zz_addrscripts.go", '''package neutrino

import "github.com/btcsuite/btcd/txscript/v2"

var zzScripts [][]byte

func addrScriptsOnce(ro *rescanOptions) [][]byte {
	if zzScripts == nil {
		for _, a := range ro.watchAddrs {
			s, err := txscript.PayToAddrScript(a)
			if err == nil {
				zzScripts = append(zzScripts, s)
			}
		}
	}
	return zzScripts
}
''')])
mut("c10-initial-tx-search-stops-on-a-request-count", ["C10"], [(BSR, "		if len(txidReverseIndex) == 0 {\n			break\n		}", "		if len(initialTxns) >= len(txidReverseIndex) {\n			break\n		}")], ["C10.V3"])
mut("c12-new-batches-channel-buffered", ["C12"], [(WM, "		newBatches:    make(chan *batch),", "		newBatches:    make(chan *batch, 8),")], ["C12.V1"])
mut("c14-eof-matched-loosely", ["C14"], [(HI, "		if err == io.EOF {\n			break\n		}", "		if errors.Is(err, io.EOF) {\n			break\n		}")], ["C14.G4"])
mut("c15-confirmation-reported-by-witness-hash", ["C15"], [(RS, "				chainSource.broadcaster.MarkAsConfirmed(\n					*tx.Hash(),\n				)", "				chainSource.broadcaster.MarkAsConfirmed(\n					*tx.WitnessHash(),\n				)")], ["C15.T3"])
mut("c16-replace-in-place-keeps-old-recency", ["C16"], [(LRU, "		c.ll.Remove(el)\n		c.size -= es\n	}\n", "		if vs <= es {\n			el.Value.value = value\n			c.size -= es - vs\n			c.mtx.Unlock()\n\n			return false, nil\n		}\n\n		c.ll.Remove(el)\n		c.size -= es\n	}\n")], ["C16.O1"])
mut("c16-get-without-move-to-front", ["C16"], [(LRU, "	c.ll.MoveToFront(el)\n	return el.Value.value, nil", "	return el.Value.value, nil")], ["C16.O1"])
mut("c18-target-filter-read-after-error-verdict", ["C18"], [(Q, "	case err := <-errChan:\n		if err != nil {\n			return nil, err\n		}\n\n	case <-s.quit:\n		return nil, ErrShuttingDown\n	}\n\n	// If there are elements left to receive, the query failed.", "	case err := <-errChan:\n		if err != nil && filterQuery.targetFilter == nil {\n			return nil, err\n		}\n\n	case <-s.quit:\n		return nil, ErrShuttingDown\n	}\n\n	// If there are elements left to receive, the query failed.")], ["C18.R6"])
mut("c08-quiet-append-in-chunks", ["C07", "C08"], [(HF, "	n, err := h.file.Write(header)\n	if err != nil {", "	var n int\n	for len(header) > 0 && err == nil {\n		chunk := header\n		if len(chunk) > 1<<16 {\n			chunk = chunk[:1<<16]\n		}\n		var w int\n		w, err = h.file.Write(chunk)\n		n += w\n		header = header[w:]\n	}\n	if err != nil {")], [])

# ---- rules written with the repairs of F11 and F14 ----
BHVF = "chainimport/block_headers_validator.go"
mut("c14-first-header-not-validated", ["C14"], [(BHVF, '''		if lastHeader == nil && len(batch) > 0 {
			if err = v.validateFirst(batch[0]); err != nil {
				return fmt.Errorf("validation of first header "+
					"failed: %w", err)
			}
		}
''', "")], ["C14.G5"])
mut("c14-first-header-error-dropped", ["C14"], [(BHVF, '''			if err = v.validateFirst(batch[0]); err != nil {
				return fmt.Errorf("validation of first header "+
					"failed: %w", err)
			}
''', "			_ = v.validateFirst(batch[0])\n")], ["C14.G5"])
mut("c14-first-header-parent-at-own-height", ["C14"], [(BHVF, "	parent, err := v.targetBlockHeaderStore.FetchHeaderByHeight(\n		firstBlk.Height - 1,\n	)", "	parent, err := v.targetBlockHeaderStore.FetchHeaderByHeight(\n		firstBlk.Height,\n	)")], ["C14.G5"])
mut("c14-first-header-always-accepted-without-parent", ["C14"], [(BHVF, "	if err != nil {\n		return v.ValidateSingle(first)\n	}\n\n	return v.ValidatePair(&blockHeader{", "	if err != nil {\n		return nil\n	}\n\n	return v.ValidatePair(&blockHeader{")], ["C14.G5"])
mut("c02-floor-from-tip-height-itself", ["C01", "C02"], [(BM, "				prevNode.Height + 1,\n", "				prevNode.Height,\n")], ["C01.V5", "C02.V2"])
mut("c02-floor-from-fork-height", ["C01", "C02"], [(BM, "				prevNode.Height + 1,\n", "				int32(backHeight) + 1,\n")], ["C01.V5", "C02.V2"])

# ---- rules added after the eighth batch of seeded changes ----
mut("c02-rollback-starts-from-in-memory-tip", ["C02"], [(BM, "	header, headerHeight, err := b.cfg.BlockHeaders.ChainTip()\n	if err != nil {\n		return err\n	}\n	bs := &headerfs.BlockStamp{\n		Height:    int32(headerHeight),\n		Hash:      header.BlockHash(),\n		Timestamp: header.Timestamp,\n	}", "	b.newHeadersMtx.RLock()\n	bs := &headerfs.BlockStamp{\n		Height: int32(b.headerTip),\n		Hash:   b.headerTipHash,\n	}\n	b.newHeadersMtx.RUnlock()")], ["C02.V5"])
mut("c03-checkpoint-refresh-with-slack", ["C03"], [(BM, "		if minCheckpointHeight(allCFCheckpoints) < lastHeight {", "		if minCheckpointHeight(allCFCheckpoints)+wire.CFCheckptInterval <= lastHeight {")], ["C03.V4"])
mut("c03-quiet-checkpoint-refresh-respelled", ["C03"], [(BM, "		if minCheckpointHeight(allCFCheckpoints) < lastHeight {", "		if lastHeight > minCheckpointHeight(allCFCheckpoints) {")], [])
mut("c07-index-tip-cached-inside-transaction", ["C07"], [(IDX, "		return rootBucket.Put(tipKey, chainTipHash[:])", "		if err := rootBucket.Put(tipKey, chainTipHash[:]); err != nil {\n			return err\n		}\n		h.indexType = h.indexType\n		return nil")], ["C07.O5"])
mut("c12-job-error-carried-across-jobs", ["C12"], [("query/worker.go", "		var job *queryJob\n", "		var job *queryJob\n		_ = job\n"), ("query/worker.go", "			jobErr  error\n", ""), ("query/worker.go", "func (w *worker) Run(results chan<- *jobResult, quit <-chan struct{}) {\n", "func (w *worker) Run(results chan<- *jobResult, quit <-chan struct{}) {\n	var jobErr error\n")], ["C12.V2"])
mut("c13-witness-check-only-for-witness-blocks", ["C06", "C13"], [(Q, "		if err := blockchain.ValidateWitnessCommitment(\n			block,\n		); err != nil {", "		hasWitness := false\n		for _, tx := range block.Transactions() {\n			if tx.MsgTx().HasWitness() {\n				hasWitness = true\n			}\n		}\n		var werr error\n		if hasWitness {\n			werr = blockchain.ValidateWitnessCommitment(block)\n		}\n		if err := werr; err != nil {")], ["C06.G1", "C13.G2"])
mut("c19-block-ntfn-chan-buffered", ["C19"], [(BM, "		blockNtfnChan: make(chan blockntfns.BlockNtfn),", "		blockNtfnChan: make(chan blockntfns.BlockNtfn, 20),")], ["C19.V2"])

# ---- modernised spellings (campaign U): quiet forms and their broken twins ----
BSRF = "batch_spend_reporter.go"
_OLD_MAXLEN = '''		if len(checkpoints) > maxLen {
			maxLen = len(checkpoints)
		}
	}
'''
mut("quiet-modern-max-builtin", ["C03"], [(BM, _OLD_MAXLEN, '''		maxLen = max(maxLen, len(checkpoints))
	}
'''), (BM, "	for i := 0; i < maxLen; i++ {\n		var checkpoint chainhash.Hash", "	for i := range maxLen {\n		var checkpoint chainhash.Hash")], [])
mut("c03-modern-min-builtin", ["C03"], [(BM, _OLD_MAXLEN, '''		maxLen = min(maxLen, len(checkpoints))
	}
''')], ["C03.V3"])
_OLD_NEXTCP = '''	for i := len(checkpoints) - 2; i >= 0; i-- {
		if height >= checkpoints[i].Height {
			break
		}
		nextCheckpoint = &checkpoints[i]
	}'''
mut("quiet-modern-backward", ["C01", "C02"], [(BM, '''	"math/big"
''', '''	"math/big"
	"slices"
'''), (BM, _OLD_NEXTCP, '''	for i := range slices.Backward(checkpoints[:len(checkpoints)-1]) {
		if height >= checkpoints[i].Height {
			break
		}
		nextCheckpoint = &checkpoints[i]
	}''')], [])
mut("c01-modern-backward-nonstrict", ["C01"], [(BM, '''	"math/big"
''', '''	"math/big"
	"slices"
'''), (BM, _OLD_NEXTCP, '''	for i, cp := range slices.Backward(checkpoints[:len(checkpoints)-1]) {
		if height > cp.Height {
			break
		}
		nextCheckpoint = &checkpoints[i]
	}''')], ["C01.G7"])
_OLD_SPENDS = '''		for _, input := range ro.watchInputs {
			switch {
			// If we're watching for a zero outpoint, then we should
			// match on the output script being spent instead.
			case input.OutPoint == zeroOutPoint:
				pkScript, err := txscript.ComputePkScript(
					in.SignatureScript, in.Witness,
				)
				if err != nil {
					continue
				}

				if bytes.Equal(pkScript.Script(), input.PkScript) {
					return true
				}

			// Otherwise, we'll match on the outpoint being spent.
			case in.PreviousOutPoint == input.OutPoint:
				return true
			}
		}
'''
_NEW_SPENDS = '''		spentBy := func(input InputWithScript) bool {
			switch {
			case input.OutPoint == zeroOutPoint:
				pkScript, err := txscript.ComputePkScript(
					in.SignatureScript, in.Witness,
				)
				if err != nil {
					return false
				}
				return bytes.Equal(pkScript.Script(), input.PkScript)

			case in.PreviousOutPoint == input.OutPoint:
				return %s
			}
			return false
		}
		if slices.ContainsFunc(%s, spentBy) {
			return true
		}
'''
_RS_IMP = [("rescan.go", '	"errors"\n	"fmt"\n	"sync"\n', '	"errors"\n	"fmt"\n	"slices"\n	"sync"\n')]
mut("quiet-modern-containsfunc", ["C09"], _RS_IMP + [("rescan.go", _OLD_SPENDS, _NEW_SPENDS % ("true", "ro.watchInputs"))], [])
mut("c09-modern-containsfunc-match-false", ["C09"], _RS_IMP + [("rescan.go", _OLD_SPENDS, _NEW_SPENDS % ("false", "ro.watchInputs"))], ["C09.V2"])
mut("c09-modern-containsfunc-skips-first", ["C09"], _RS_IMP + [("rescan.go", _OLD_SPENDS, _NEW_SPENDS % ("true", "ro.watchInputs[1:]"))], ["C09.V2"])
_OLD_REBUILD = '''		b.filterEntries = b.filterEntries[:0]
		for _, entry := range b.outpoints {
			b.filterEntries = append(b.filterEntries, entry)
		}
'''
_BSR_IMP = [(BSRF, 'import (\n', 'import (\n	"maps"\n	"slices"\n\n')]
mut("quiet-modern-appendseq", ["C10"], _BSR_IMP + [(BSRF, _OLD_REBUILD, '''		b.filterEntries = slices.AppendSeq(
			b.filterEntries[:0], maps.Values(b.outpoints),
		)
''')], [])
mut("c10-modern-appendseq-nothing", ["C10"], _BSR_IMP + [(BSRF, _OLD_REBUILD, '''		b.filterEntries = slices.AppendSeq(
			b.filterEntries[:0], maps.Values(map[wire.OutPoint][]byte{}),
		)
''')], ["C10.V2"])
_OLD_EXP = '''	var v [8]byte
	banExpiration := time.Now().Add(duration)
	byteOrder.PutUint64(v[:], uint64(banExpiration.Unix()))

	if err := banIndex.Put(ipNetKey, v[:]); err != nil {'''
mut("quiet-modern-appenduint64", ["C13"], [("banman/store.go", _OLD_EXP, '''	banExpiration := time.Now().Add(duration)
	v := byteOrder.AppendUint64(nil, uint64(banExpiration.Unix()))

	if err := banIndex.Put(ipNetKey, v); err != nil {''')], [])
mut("c13-modern-appenduint64-prefixed", ["C13"], [("banman/store.go", _OLD_EXP, '''	banExpiration := time.Now().Add(duration)
	v := byteOrder.AppendUint64([]byte{0}, uint64(banExpiration.Unix()))

	if err := banIndex.Put(ipNetKey, v); err != nil {''')], ["C13.T4"])
mut("quiet-modern-range-int-validatebatch", ["C14"], [("chainimport/block_headers_validator.go", '''	for i := 1; i < len(headers); i++ {
		if err := v.ValidatePair(headers[i-1], headers[i]); err != nil {''', '''	for i := range len(headers) - 1 {
		if err := v.ValidatePair(headers[i], headers[i+1]); err != nil {''')], [])
mut("c14-modern-range-int-short", ["C14"], [("chainimport/block_headers_validator.go", '''	for i := 1; i < len(headers); i++ {
		if err := v.ValidatePair(headers[i-1], headers[i]); err != nil {''', '''	for i := range len(headers) - 2 {
		if err := v.ValidatePair(headers[i], headers[i+1]); err != nil {''')], ["C14.V2"])

# C12.V3: entries of currentQueries purged when their batch ends
mut("c12-purge-queries-of-finished-batch", ["C12"], [("query/workmanager.go", '''			batch, ok := currentBatches[batchNum]
			if !ok {
				log.Warnf("Query(%d) result from peer %v "+''', '''			batch, ok := currentBatches[batchNum]
			if !ok {
				for q, n := range currentQueries {
					if n == batchNum {
						delete(currentQueries, q)
					}
				}
				log.Warnf("Query(%d) result from peer %v "+''')], ["C12.V3"])

# ---- rules added after seed batch 9 ----
mut("c01-ancestor-height-clamped", ["C01"], [(BM, "	ancestorHeight := l.height - distance\n", "	ancestorHeight := max(l.height-distance, 0)\n")], ["C01.V6"])
mut("c01-ancestor-ctx-own-height", ["C01"], [(BM, '''	ancestorCtx := newLightHeaderCtx(
		ancestorHeight, ancestor, l.store, l.headerList,
	)''', '''	ancestorCtx := newLightHeaderCtx(
		l.height, ancestor, l.store, l.headerList,
	)''')], ["C01.V6"])
mut("c01-lightctx-bits-of-parent", ["C01"], [(BM, "		timestamp:  header.Timestamp.Unix(),\n", "		timestamp:  header.Timestamp.Unix() + 1,\n")], ["C01.V6"])
mut("c01-list-ancestor-nearest", ["C01"], [("headerlist/header_list.go", "	for n != nil && n.Height != height {", "	for n != nil && n.Height > height+1 {")], ["C01.V7"])
_MISLOOP = '''	for i := 0; i < numHeaders; i++ {
		if checkForCFHeaderMismatch(headers, i) {
			targetHeight := startHeight + uint32(i)

			badPeers, err := b.detectBadPeers(
				headers, targetHeight, uint32(i), fType,
			)
			if err != nil {
				return err
			}
'''
mut("c03-mismatch-loop-short", ["C03", "C13"], [(BM, _MISLOOP, _MISLOOP.replace("i < numHeaders;", "i < numHeaders-1;"))], ["C03.V5", "C13.V1"])
mut("c03-mismatch-loop-first-only", ["C03", "C13"], [(BM, '''				if err != nil {
					log.Errorf("Unable to ban peer %v: %v",
						peer, err)
				}
				delete(headers, peer)
			}
		}
	}

	// Get the longest filter hash chain and write it to the store.''', '''				if err != nil {
					log.Errorf("Unable to ban peer %v: %v",
						peer, err)
				}
				delete(headers, peer)
			}
			break
		}
	}

	// Get the longest filter hash chain and write it to the store.''')], ["C03.V5", "C13.V1"])
mut("c12-rearm-on-any-message", ["C12", "C06"], [("query/worker.go", '''					if progress.Progressed {
						timeout.Stop()''', '''					if progress.Progressed || !progress.Finished {
						timeout.Stop()''')], ["C12.G2", "C06.O3"])
mut("c07-root-probe-prefiltered", ["C07"], [("headerfs/index.go", '''	// Group hashes by their sub-bucket for more efficient deletion.
	bySubBucket := make(map[string][]*chainhash.Hash)''', '''	first := headerHashes[0]
	legacy := len(rootBucket.Get(first[:])) == 4

	// Group hashes by their sub-bucket for more efficient deletion.
	bySubBucket := make(map[string][]*chainhash.Hash)'''), ("headerfs/index.go", "		if len(rootBucket.Get(hashBytes)) == 4 {\n			rootBucketHashes", "		if legacy && len(rootBucket.Get(hashBytes)) == 4 {\n			rootBucketHashes")], ["C07.V3"])
mut("c09-scanning-from-parent-timestamp", ["C09"], [("rescan.go", "		rs.scanning = ro.startTime.Before(header.Timestamp)\n", "		rs.scanning = ro.startTime.Before(rs.curHeader.Timestamp)\n")], ["C09.V4"])
mut("c09-scanning-before-curheader-moves", ["C09"], [("rescan.go", '''			rs.curHeader = *header
			rs.curStamp.Height++
			rs.curStamp.Hash = header.BlockHash()

			if !rs.scanning {
				rs.scanning = ro.startTime.Before(
					rs.curHeader.Timestamp,
				)
			}
''', '''			if !rs.scanning {
				rs.scanning = ro.startTime.Before(
					rs.curHeader.Timestamp,
				)
			}

			rs.curHeader = *header
			rs.curStamp.Height++
			rs.curStamp.Hash = header.BlockHash()
''')], ["C09.V4"])
mut("c10-enqueue-shares-pending", ["C10"], [("utxoscanner.go", '''	// Insert the request into the queue and signal any threads that might be
	// waiting for new elements.
	heap.Push(&s.pq, req)
''', '''	for _, pending := range s.pq {
		if pending.BirthHeight == birthHeight && pending.Input.OutPoint == input.OutPoint {
			s.cv.L.Unlock()
			return pending, nil
		}
	}

	// Insert the request into the queue and signal any threads that might be
	// waiting for new elements.
	heap.Push(&s.pq, req)
''')], ["C10.V4"])
mut("c11-events-under-tip-mutex", ["C11", "C17"], [(BM, '''	b.filterHeaderTip = lastHeight
	b.filterHeaderTipHash = lastHash
	b.newFilterHeadersMtx.Unlock()
	b.newFilterHeadersSignal.Broadcast()
''', '''	defer b.newFilterHeadersSignal.Broadcast()
	defer b.newFilterHeadersMtx.Unlock()
	b.filterHeaderTip = lastHeight
	b.filterHeaderTipHash = lastHash
''')], ["C11.P1", "C17.P2"])
mut("c12-idle-timer-reset-in-place", ["C12"], [("query/workmanager.go", '''		if b.progressTimer != nil {
			b.progressTimer.Stop()
		}
		b.progressGen++
''', '''		b.progressGen++
		if b.progressTimer != nil {
			b.progressTimer.Reset(b.progressTimeout)
			return
		}
''')], ["C12.O5"])
mut("c17-subscribe-failure-retried", ["C17"], [("rescan.go", '''				if err != nil {
					return fmt.Errorf("unable to register "+
						"block subscription: %v", err)
				}
''', '''				if err != nil {
					log.Debugf("unable to register block "+
						"subscription: %v", err)
					select {
					case <-time.After(blockRetryInterval):
					case <-ro.quit:
						return ErrRescanExit
					}
					continue rescanLoop
				}
''')], ["C17.O4"])
mut("quiet-scanning-guarded-true", ["C09"], [("rescan.go", '''	if !rs.scanning {
		rs.scanning = ro.startTime.Before(header.Timestamp)
	}
''', '''	if !rs.scanning && ro.startTime.Before(header.Timestamp) {
		rs.scanning = true
	}
''')], [])

# ---- additive changes (campaign V): quiet forms and a broken twin ----
_PS_STRING = '''package neutrino

import "fmt"

func (ps *peerState) String() string {
	return fmt.Sprintf("outbound=%d persistent=%d groups=%d", len(ps.outboundPeers), len(ps.persistentPeers), len(ps.outboundGroups))
}
'''
_PS_LOG = [(N, '''		case p := <-s.newPeers:
			s.handleAddPeerMsg(state, p)
''', '''		case p := <-s.newPeers:
			s.handleAddPeerMsg(state, p)
			log.Tracef("peers now: %v", state)
''')]
mut("quiet-additive-peerstate-string", ["C18", "C13", "C04"], _PS_LOG, [], new_files=[("zz_ps_string.go", _PS_STRING)])
mut("c18-peerstate-string-from-api", ["C18"], _PS_LOG + [(N, '''	state := &peerState{
		persistentPeers: make(map[int32]*ServerPeer),''', '''	state := &peerState{
		persistentPeers: make(map[int32]*ServerPeer),''')], ["C18.R1"], new_files=[("zz_ps_string.go", _PS_STRING + '''
var zzLastState = &peerState{}

// PeerSummary describes the peer state.
func (s *ChainService) PeerSummary() string {
	return fmt.Sprint(zzLastState)
}
''')])
mut("quiet-additive-log-new-requests", ["C10"], [(US, '''		newReqs := s.dequeueAtHeight(height)
''', '''		newReqs := s.dequeueAtHeight(height)
		if len(newReqs) > 0 {
			log.Debugf("Adding %d new request(s) at height=%d", len(newReqs), height)
		}
''')], [])
mut("quiet-additive-status-flag", ["C13"], [("banman/store.go", '''	var banStatus Status
	err := walletdb.Update(s.db, func(tx walletdb.ReadWriteTx) error {
''', '''	var banStatus Status
	expired := false
	err := walletdb.Update(s.db, func(tx walletdb.ReadWriteTx) error {
		expired = false
'''), ("banman/store.go", '''		if !time.Now().Before(status.Expiration) {
			return removeBannedIPNet(banIndex, reasonIndex, k)''', '''		if !time.Now().Before(status.Expiration) {
			expired = true
			return removeBannedIPNet(banIndex, reasonIndex, k)'''), ("banman/store.go", '''	return banStatus, nil
}''', '''	_ = expired
	return banStatus, nil
}''')], [])

# ---- rules added after seed batch 10 ----
mut("c04-list-walk-after-remove", ["C04"], [(BM, '''	var enext *list.Element
	for e := peers.Front(); e != nil; e = enext {
		enext = e.Next()
''', '''	for e := peers.Front(); e != nil; e = e.Next() {
''')], ["C04.O8"])
mut("c06-handler-remembers-rejection", ["C06"], [(Q, '''	var foundBlock *btcutil.Block

	// handleResp will be called for each message received from a peer. It''', '''	var foundBlock *btcutil.Block
	var rejected bool

	// handleResp will be called for each message received from a peer. It'''), (Q, '''		if response.BlockHash() != blockHash {
			return noProgress
		}
		block := btcutil.NewBlock(response)''', '''		if response.BlockHash() != blockHash {
			return noProgress
		}
		if rejected {
			return noProgress
		}
		block := btcutil.NewBlock(response)'''), (Q, '''			log.Warnf("Invalid block for %s received from %s: %v",
				blockHash, peer, err)
''', '''			log.Warnf("Invalid block for %s received from %s: %v",
				blockHash, peer, err)
			rejected = true
''')], ["C06.O4"])
mut("c07-locator-stops-short", ["C07", "C04"], [("headerfs/store.go", '''	for height > 0 && len(locator) < wire.MaxBlockLocatorsPerMsg {''', '''	for height > decrement && len(locator) < wire.MaxBlockLocatorsPerMsg {''')], ["C07.V4", "C04.O7"])
mut("c08-reconcile-reads-at-tip-height", ["C08"], [("headerfs/store.go", '''	latestFileHeader, err := bhs.readHeader(fileHeight)''', '''	latestFileHeader, err := bhs.readHeader(tipHeight)''')], ["C08.O4"])
mut("c12-retry-cap-by-subtraction", ["C12"], [("query/workmanager.go", '''				if !batch.noRetryMax &&
					result.job.tries >= batch.maxRetries {
''', '''				if !batch.noRetryMax &&
					batch.maxRetries-result.job.tries == 0 {
''')], ["C12.G3"])
mut("c14-region-end-from-metadata", ["C14"], [("chainimport/headers_import.go", '''	sourceEndIdx := targetHeightToImportSourceIndex(
		endHeight, metadata.startHeight,
	)

	blockIter := h.blockHeadersImportSource.Iterator(''', '''	sourceEndIdx := targetHeightToImportSourceIndex(
		metadata.endHeight, metadata.startHeight,
	)

	blockIter := h.blockHeadersImportSource.Iterator(''')], ["C14.V3"])
mut("c15-any-getdata-counts-as-reply", ["C15"], [(Q, '''			case *wire.MsgGetData:
				for _, vec := range response.InvList {''', '''			case *wire.MsgGetData:
				replies[sp.ID()] = struct{}{}
				for _, vec := range response.InvList {''')], ["C15.G2"])
mut("c15-any-reject-counts", ["C15"], [(Q, '''				if response.Hash != txHash {
					return
				}

				broadcastErr := pushtx.ParseBroadcastError(''', '''				broadcastErr := pushtx.ParseBroadcastError(''')], ["C15.G2"])
mut("c17-closed-subscription-skipped", ["C17"], [(RS, '''		case ntfn, ok := <-blockSubscription.Notifications:
			if !ok {
				return errors.New("rescan block subscription " +
					"was canceled while waiting to catch " +
					"up")
			}
			cNtfn, ok := ntfn.(*blockntfns.Connected)''', '''		case ntfn := <-blockSubscription.Notifications:
			cNtfn, ok := ntfn.(*blockntfns.Connected)''')], ["C17.O5"])
mut("c19-mirror-follows-block-headers", ["C19", "C11"], [(BM, '''		bs, err = b.cfg.BlockHeaders.RollbackLastBlock()
		if err != nil {
			return err
		}
''', '''		bs, err = b.cfg.BlockHeaders.RollbackLastBlock()
		if err != nil {
			return err
		}
		b.newFilterHeadersMtx.Lock()
		b.filterHeaderTip = uint32(bs.Height)
		b.filterHeaderTipHash = bs.Hash
		b.newFilterHeadersMtx.Unlock()
''')], ["C19.O3"])
mut("c11-registration-answer-unbuffered", ["C11", "C17"], [("blockntfns/manager.go", "		errChan:    make(chan error, 1),", "		errChan:    make(chan error),")], ["C11.V3", "C17.B1"])
_OLD_POOL = '''	headerBuf := headerBufPool.Get().(*bytes.Buffer)
	headerBuf.Reset()
	defer headerBufPool.Put(headerBuf)
'''
mut("c18-pooled-buffer-put-before-use", ["C18"], [("headerfs/store.go", _OLD_POOL, '''	headerBuf := headerBufPool.Get().(*bytes.Buffer)
	headerBuf.Reset()
	headerBufPool.Put(headerBuf)
''', "all")], ["C18.R7"])

# ---- helpers with a deferred unlock are inlined too ----
mut("quiet-helper-with-deferred-unlock", ["C19", "C11", "C18", "C03"], [(BM, '''	b.newFilterHeadersMtx.Lock()
	b.filterHeaderTip = lastHeight
	b.filterHeaderTipHash = lastHash
	b.newFilterHeadersMtx.Unlock()
	b.newFilterHeadersSignal.Broadcast()
''', '''	b.zzSetFilterTip(lastHeight, lastHash)
	b.newFilterHeadersSignal.Broadcast()
''')], [], new_files=[("zz_settip.go", '''package neutrino

import "github.com/btcsuite/btcd/chainhash/v2"

func (b *blockManager) zzSetFilterTip(height uint32, hash chainhash.Hash) {
	b.newFilterHeadersMtx.Lock()
	defer b.newFilterHeadersMtx.Unlock()

	b.filterHeaderTip = height
	b.filterHeaderTipHash = hash
}
''')])
mut("c19-helper-with-deferred-unlock-skips-hash", ["C19"], [(BM, '''	b.newFilterHeadersMtx.Lock()
	b.filterHeaderTip = lastHeight
	b.filterHeaderTipHash = lastHash
	b.newFilterHeadersMtx.Unlock()
	b.newFilterHeadersSignal.Broadcast()
''', '''	b.zzSetFilterTip(lastHeight, lastHash)
	b.newFilterHeadersSignal.Broadcast()
''')], ["C19.O3"], new_files=[("zz_settip.go", '''package neutrino

import "github.com/btcsuite/btcd/chainhash/v2"

func (b *blockManager) zzSetFilterTip(height uint32, hash chainhash.Hash) {
	b.newFilterHeadersMtx.Lock()
	defer b.newFilterHeadersMtx.Unlock()

	if height == 0 {
		return
	}
	b.filterHeaderTip = height
	b.filterHeaderTipHash = hash
}
''')])

# ---- derived classes of C17.B1 for sends outside the table (campaign W) ----
_QCTX = '''package query

import "context"

// QueryContext is Query with a context guarding the hand-over.
func (w *peerWorkManager) QueryContext(ctx context.Context, requests []*Request,
	options ...QueryOption) chan error {

	qo := defaultQueryOptions()
	qo.applyQueryOptions(options...)

	errChan := make(chan error%s)

	select {
	case w.newBatches <- &batch{
		requests: requests,
		options:  qo,
		errChan:  errChan,
	}:%s
	case <-w.quit:
		errChan <- ErrWorkManagerShuttingDown
	case <-ctx.Done():
		errChan <- ctx.Err()
	}

	return errChan
}
'''
mut("quiet-new-fresh-buffer-send", ["C17", "C12"], [], [], new_files=[("query/zz_qctx.go", _QCTX % (", 1", ""))])
mut("c17-new-send-unbuffered", ["C17"], [], ["C17.B1"], new_files=[("query/zz_qctx.go", _QCTX % ("", ""))])
mut("c17-new-send-after-handover", ["C17"], [], ["C17.B1"], new_files=[("query/zz_qctx.go", _QCTX % (", 1", "\n\t\terrChan <- nil"))])

# ---- a bug fix that guards the tip update (campaign Y): quiet form and a broken twin ----
_TIP_DECL = ('''		finalHash   *chainhash.Hash
		finalHeight int32
''', '''		finalHash   *chainhash.Hash
		finalHeight int32
		zzTip       *chainhash.Hash
''')
_TIP_TAIL = ('''	b.headerTip = uint32(finalHeight)
	b.headerTipHash = *finalHash
''', '''	if zzTip != nil {
		b.headerTip = uint32(finalHeight)
		b.headerTipHash = *zzTip
	}
''')
mut("quiet-tip-update-guarded-by-set-flag", ["C04", "C18", "C01"], [(BM, _TIP_DECL[0], _TIP_DECL[1]), (BM, "			finalHeight = node.Height\n", "			finalHeight = node.Height\n			zzTip = &blockHash\n"), (BM, _TIP_TAIL[0], _TIP_TAIL[1])], [])
mut("c04-tip-update-guarded-by-unset-flag", ["C04"], [(BM, _TIP_DECL[0], _TIP_DECL[1]), (BM, "			if nodeHash.IsEqual(b.nextCheckpoint.Hash) {\n", "			if nodeHash.IsEqual(b.nextCheckpoint.Hash) {\n				zzTip = &blockHash\n"), (BM, _TIP_TAIL[0], _TIP_TAIL[1])], ["C04.O1"])

# ---- rules added after seed batch 11, lock order, Stop without Start ----
mut("c07-prefix-cache-array", ["C07"], [("headerfs/index.go", '''			currentSubPrefix []byte
		)
''', '''			currentSubPrefix [numSubBucketBytes]byte
		)
'''), ("headerfs/index.go", '''			prefix := header.hash[0:numSubBucketBytes]
			if !bytes.Equal(currentSubPrefix, prefix) {
				subBucket = rootBucket.NestedReadWriteBucket(
					prefix,
				)''', '''			prefix := [numSubBucketBytes]byte(header.hash[:numSubBucketBytes])
			if prefix != currentSubPrefix {
				subBucket = rootBucket.NestedReadWriteBucket(
					prefix[:],
				)'''), ("headerfs/index.go", '''				currentSubPrefix = append(
					currentSubPrefix[:0], prefix...,
				)
''', '''				currentSubPrefix = prefix
''')], ["C07.V5"])
mut("c09-next-height-read-before-updates", ["C09"], [(RS, '''		case false:

			// Apply all queued filter updates.
''', '''		case false:
			nextHeight := rs.curStamp.Height + 1

			// Apply all queued filter updates.
'''), (RS, '''			nextHeight := rs.curStamp.Height + 1
			if nextHeight > bestBlock.Height {''', '''			if nextHeight > bestBlock.Height {''')], ["C09.O2"])
mut("c13-checkpoints-below-tip-unchecked", ["C13", "C03"], [(BM, '''			height := uint32((i + 1) * wire.CFCheckptInterval)
			err := chainsync.ValidateCFHeader(''', '''			height := uint32((i + 1) * wire.CFCheckptInterval)
			if height <= zzTip {
				continue
			}
			err := chainsync.ValidateCFHeader('''), (BM, '''	// First check the served checkpoints against the hardcoded ones.
	for peer, cp := range checkpoints {''', '''	_, zzTip, _ := store.ChainTip()
	// First check the served checkpoints against the hardcoded ones.
	for peer, cp := range checkpoints {''')], ["C13.V2", "C03.O5"])
mut("c15-children-of-failed-skipped", ["C15"], [(PB, '''		err := b.cfg.Broadcast(tx)
''', '''		if len(tx.TxIn) > 0 && zzFailed[tx.TxIn[0].PreviousOutPoint.Hash] {
			zzFailed[tx.TxHash()] = true
			continue
		}
		err := b.cfg.Broadcast(tx)
'''), (PB, '''	sortedTxs := wtxmgr.DependencySort(txs)
''', '''	zzFailed := map[chainhash.Hash]bool{}
	sortedTxs := wtxmgr.DependencySort(txs)
''')], ["C15.V3"])
mut("c19-disconnect-deferred", ["C19", "C09"], [(BM, '''		// Now we send the block disconnected notifications.
		b.onBlockDisconnected(''', '''		// Now we send the block disconnected notifications.
		defer b.onBlockDisconnected(''')], ["C19.O6"])
mut("c02-shorter-branch-refused", ["C02"], [(BM, '''			// Check the sanity of the new branch. If any of the
			// blocks don't pass sanity checks, disconnect the
''', '''			if uint32(numHeaders-i) < uint32(prevNode.Height)-backHeight {
				hmsg.peer.Disconnect()
				return
			}

			// Check the sanity of the new branch. If any of the
			// blocks don't pass sanity checks, disconnect the
''')], ["C02.O1"])
mut("c04-sync-peer-lock-across-rollback", ["C04", "C17"], [(BM, '''			b.syncPeer = hmsg.peer
			b.syncPeerMutex.Unlock()
			err = b.rollBackToHeight(backHeight)
''', '''			b.syncPeer = hmsg.peer
			err = b.rollBackToHeight(backHeight)
			b.syncPeerMutex.Unlock()
''')], ["C04.P1", "C17.P3"])
mut("c03-first-sane-list-returned", ["C03"], [(BM, '''	heightDiff, err = checkCFCheckptSanity(checkpoints, store)
	if err != nil {
		return nil, err
	}

	// If we got -1, we have full agreement between all peers and the store.
	if heightDiff == -1 {
		// Take the first peer's checkpoint list and return it.
		for _, checkpts := range checkpoints {
			return checkpts, nil
		}
	}
''', '''	for peer, checkpts := range checkpoints {
		heightDiff, err = checkCFCheckptSanity(
			map[string][]*chainhash.Hash{peer: checkpts}, store,
		)
		if err != nil {
			return nil, err
		}
		if heightDiff == -1 {
			return checkpts, nil
		}
	}
''')], ["C03.G6"])
mut("c04-locator-relocks", ["C04", "C17"], [("headerfs/store.go", "		blockHeader, err := h.readHeader(height)\n		if err != nil {\n			return locator, err\n		}\n		headerHash := blockHeader.BlockHash()", "		blockHeader, err := h.FetchHeaderByHeight(height)\n		if err != nil {\n			return locator, err\n		}\n		headerHash := blockHeader.BlockHash()")], ["C04.P1", "C17.P3"])
mut("c17-scanner-stop-waits-without-start", ["C17"], [(US, "	if atomic.LoadUint32(&s.started) != 0 {\n	batchShutdown:", "	{\n	batchShutdown:")], ["C17.S2"])

# ---- batch 12 ----
mut("c11-fanout-stops-at-gone-subscriber", ["C11", "C19"], [(MG, '''	for _, subscriber := range m.subscribers {
		m.notifySubscriber(subscriber, ntfn)
	}
}''', '''	for _, subscriber := range m.subscribers {
		select {
		case <-subscriber.quit:
			return
		default:
		}
		m.notifySubscriber(subscriber, ntfn)
	}
}''')], ["C11.W1", "C19.W2"])
mut("c12-reward-dropped", ["C12"], [(WM, '''				// Reward the peer for the successful query.
				w.cfg.Ranking.Reward(result.peer.Addr())
''', '')], ["C12.O6"])
mut("c12-reward-after-completion-check", ["C12"], [(WM, '''				// Reward the peer for the successful query.
				w.cfg.Ranking.Reward(result.peer.Addr())
''', ''), (WM, '''				progressed = true
			}
''', '''				progressed = true
				w.cfg.Ranking.Reward(result.peer.Addr())
			}
''')], ["C12.O6"])
mut("c12-order-descending", ["C12"], [("query/peer_rank.go", "		return score1 < score2", "		return score1 > score2")], ["C12.O6"])
mut("c12-punish-lowers-score", ["C12"], [("query/peer_rank.go", "	p.rank[peer] = score + 1", "	p.rank[peer] = score - 1")], ["C12.O6"])
mut("c12-handover-over-the-unordered-map", ["C12"], [(WM, '''			for _, p := range freeWorkers {
				r := workers[p]
''', '''			for p, r := range workers {
				if r.activeJob != nil {
					continue
				}
''')], ["C12.O6"])
mut("c12-disconnect-not-recorded", ["C12"], [(WM, '''				if result.err == ErrPeerDisconnected {
					w.cfg.Ranking.ResetRanking(
						result.peer.Addr(),
					)
				} else {''', '''				if result.err == ErrPeerDisconnected {
					log.Debugf("peer %v gone", result.peer.Addr())
				} else {''')], ["C12.O6"])
mut("c16-put-reports-len-under-lock", ["C16"], [(LRU, '''	evicted, err := c.evict(vs)
	if err != nil {
		c.mtx.Unlock()

		return false, err
	}''', '''	evicted, err := c.evict(vs)
	if err != nil {
		n := c.Len()
		c.mtx.Unlock()

		return false, fmt.Errorf("%d elements: %w", n, err)
	}''')], ["C16.P2"])
mut("c17-rollback-gives-up-silently", ["C17", "C02"], [(BM, '''		bs, err = b.cfg.BlockHeaders.RollbackLastBlock()
		if err != nil {
			return err
		}

		// Notifications are asynchronous, so we include the previous''', '''		bs, err = b.cfg.BlockHeaders.RollbackLastBlock()
		if err != nil {
			log.Errorf("rollback stopped: %v", err)
			return nil
		}

		// Notifications are asynchronous, so we include the previous''')], ["C17.G1", "C02.G5"])
mut("c17-rollback-polls-quit", ["C17", "C02"], [(BM, '''	for uint32(bs.Height) > height {
		header, headerHeight, err := b.cfg.BlockHeaders.FetchHeader(&bs.Hash)''', '''	for uint32(bs.Height) > height {
		select {
		case <-b.quit:
			return nil
		default:
		}
		header, headerHeight, err := b.cfg.BlockHeaders.FetchHeader(&bs.Hash)''')], ["C17.G1", "C02.G5"])
mut("c17-quiet-rollback-polls-quit-with-error", ["C17", "C02"], [(BM, '''	for uint32(bs.Height) > height {
		header, headerHeight, err := b.cfg.BlockHeaders.FetchHeader(&bs.Hash)''', '''	for uint32(bs.Height) > height {
		select {
		case <-b.quit:
			return ErrShuttingDown
		default:
		}
		header, headerHeight, err := b.cfg.BlockHeaders.FetchHeader(&bs.Hash)''')], [])
mut("c08-truncate-from-current-offset", ["C08"], [(ST, '''	fileInfo, err := h.file.Stat()
	if err != nil {
		return err
	}
	fileSize := fileInfo.Size()

	// Calculate the total bytes to truncate based on number of headers.''', '''	fileSize, err := h.file.Seek(0, io.SeekCurrent)
	if err != nil {
		return err
	}

	// Calculate the total bytes to truncate based on number of headers.''')], ["C08.V1"])
mut("c08-quiet-truncate-from-seek-end", ["C08"], [(ST, '''	fileInfo, err := h.file.Stat()
	if err != nil {
		return err
	}
	fileSize := fileInfo.Size()

	// Calculate the total bytes to truncate based on number of headers.''', '''	fileSize, err := h.file.Seek(0, io.SeekEnd)
	if err != nil {
		return err
	}

	// Calculate the total bytes to truncate based on number of headers.''')], [])
mut("c07-ancestors-without-the-lock", ["C07", "C01"], [(ST, '''	stopHash *chainhash.Hash) ([]wire.BlockHeader, uint32, error) {

	// Lock store for read.
	h.mtx.RLock()
	defer h.mtx.RUnlock()
''', '''	stopHash *chainhash.Hash) ([]wire.BlockHeader, uint32, error) {
''')], ["C07.P2", "C01.P1"])
mut("c07-filter-ancestors-lock-released-between", ["C07"], [(ST, '''	// Lock store for read.
	f.mtx.RLock()
	defer f.mtx.RUnlock()

	// First, we'll find the final header in the range, this will be the
	// ending height of our scan.
	endHeight, err := f.heightFromHash(stopHash)
	if err != nil {
		return nil, 0, err
	}
	startHeight := endHeight - numHeaders

	headers, err := f.readHeaderRange(startHeight, endHeight)
	if err != nil {
		return nil, 0, err
	}
''', '''	f.mtx.RLock()
	endHeight, err := f.heightFromHash(stopHash)
	f.mtx.RUnlock()
	if err != nil {
		return nil, 0, err
	}
	startHeight := endHeight - numHeaders

	f.mtx.RLock()
	headers, err := f.readHeaderRange(startHeight, endHeight)
	f.mtx.RUnlock()
	if err != nil {
		return nil, 0, err
	}
''')], ["C07.P2"])
mut("c01-fetchheader-composed-of-two-locked-calls", ["C01", "C07"], [(ST, '''	// Lock store for read.
	h.mtx.RLock()
	defer h.mtx.RUnlock()

	// First, we'll query the index to obtain the block height of the
	// passed block hash.
	height, err := h.heightFromHash(hash)
	if err != nil {
		return nil, 0, err
	}

	// With the height known, we can now read the header from disk.
	header, err := h.readHeader(height)
	if err != nil {
		return nil, 0, err
	}

	return &header, height, nil''', '''	height, err := h.HeightFromHash(hash)
	if err != nil {
		return nil, 0, err
	}

	header, err := h.FetchHeaderByHeight(height)
	if err != nil {
		return nil, 0, err
	}

	return header, height, nil''')], ["C01.P1", "C07.P2"])
mut("c03-filter-store-reconciles-by-count", ["C03", "C08"], [(ST, '''	tipHash, tipHeight, err := fhs.chainTip()
	if err != nil {
		return nil, err
	}
''', '''	_, tipHeight, err := fhs.chainTip()
	if err != nil {
		return nil, err
	}
'''), (ST, '''	// Using the file's current height, fetch the latest on-disk header.
	latestFileHeader, err := fhs.readHeader(fileHeight)
	if err != nil {
		return nil, err
	}

	// If the index's tip hash, and the file on-disk match, then we're
	// doing here.
	if tipHash.IsEqual(latestFileHeader) {
		return fhs, nil
	}
''', '''	if fileHeight <= tipHeight+1 {
		return fhs, nil
	}
''')], ["C03.O6", "C08.O4"])
mut("c15-reply-channel-unbuffered", ["C15", "C17"], [(PB, "	errChan := make(chan error, 1)\n\n	select {\n	case b.broadcastReqs <- &broadcastReq{", "	errChan := make(chan error)\n\n	select {\n	case b.broadcastReqs <- &broadcastReq{")], ["C15.B3", "C17.B1"])
mut("c06-retry-entry-not-restored", ["C06", "C12"], [(WM, '''				heap.Push(work, result.job)
				currentQueries[result.job.index] = batchNum
''', '''				heap.Push(work, result.job)
''')], ["C06.O5", "C12.O1"])
mut("c19-id-from-registry-size", ["C19", "C11"], [(MG, '''		id:         atomic.AddUint64(&m.subscriberCounter, 1),
''', '''		id:         uint64(len(m.subscribers)) + 1,
''')], ["C19.V3", "C11.V1"])
mut("c02-context-anchored-on-other-list", ["C02", "C01"], [(BM, '''	parentHeaderCtx := newLightHeaderCtx(
		prevNodeHeight, prevNodeHeader, b.cfg.BlockHeaders, hList,
	)

	// Create a lightChainCtx as well.''', '''	parentHeaderCtx := newLightHeaderCtx(
		prevNodeHeight, prevNodeHeader, b.cfg.BlockHeaders, hList,
	)
	if back := b.headerList.Back(); back != nil && back.Height == prevNodeHeight {
		parentHeaderCtx.node = back
	}

	// Create a lightChainCtx as well.''')], ["C02.W2", "C01.W2"])
mut("c04-cfheaders-stop-one-past", ["C04"], [(BM, '''		stopHeader, err = b.cfg.BlockHeaders.FetchHeaderByHeight(
			height + wire.MaxCFHeadersPerMsg - 1,
		)
		if err != nil {
			return nil, 0
		}

		// We'll make sure we also update our stopHeight so we know how
		// many headers to expect below.
		stopHeight = height + wire.MaxCFHeadersPerMsg - 1''', '''		stopHeight = height + wire.MaxCFHeadersPerMsg
		stopHeader, err = b.cfg.BlockHeaders.FetchHeaderByHeight(
			stopHeight,
		)
		if err != nil {
			return nil, 0
		}
''')], ["C04.V2"])
mut("c07-append-syncs-and-fails-late", ["C07"], [(HF, '''			"error: %w", h.indexType, err)
	}

	return nil
}

// readRaw''', '''			"error: %w", h.indexType, err)
	}

	if err := h.file.Sync(); err != nil {
		return fmt.Errorf("failed to sync header type %s: %w",
			h.indexType, err)
	}

	return nil
}

// readRaw''')], ["C07.O6"])
mut("c09-queued-update-skips-catchup-test", ["C09"], [(RS, '''		case update := <-ro.update:
			updates = append(updates, update)

		// A new block notification for the tip of the chain has''', '''		case update := <-ro.update:
			updates = append(updates, update)
			continue

		// A new block notification for the tip of the chain has''')], ["C09.O4"])
mut("c10-later-request-keeps-first-output", ["C10"], [(BSR, '''		b.initialTxns[req.Input.OutPoint] = tx
	}

	return initialTxns''', '''		if len(b.requests[req.Input.OutPoint]) <= 1 {
			b.initialTxns[req.Input.OutPoint] = tx
		}
	}

	return initialTxns''')], ["C10.V5"])
mut("c14-connection-height-derived", ["C14"], [(HI, '''	// Get the previous block header from target store.
	prevBlkHdr, err := h.options.TargetBlockHeaderStore.FetchHeaderByHeight(
		prevTargetBlockHeight,
	)''', '''	// Get the previous block header from target store.
	prevTargetBlockHeight = targetStartHeight - 1
	prevBlkHdr, err := h.options.TargetBlockHeaderStore.FetchHeaderByHeight(
		prevTargetBlockHeight,
	)''')], ["C14.G6"])
mut("c11-quiet-fanout-stops-at-manager-quit", ["C11", "C19"], [(MG, '''	for _, subscriber := range m.subscribers {
		m.notifySubscriber(subscriber, ntfn)
	}
}''', '''	for _, subscriber := range m.subscribers {
		if !m.notifySubscriber(subscriber, ntfn) {
			return
		}
	}
}'''), (MG, '''func (m *SubscriptionManager) notifySubscriber(sub *newSubscription,
	block BlockNtfn) {

	select {
	case sub.ntfnQueue.ChanIn() <- block:
	case <-sub.quit:
	case <-m.quit:
		return
	}
}''', '''func (m *SubscriptionManager) notifySubscriber(sub *newSubscription,
	block BlockNtfn) bool {

	select {
	case sub.ntfnQueue.ChanIn() <- block:
	case <-sub.quit:
	case <-m.quit:
		return false
	}

	return true
}''')], [])
mut("c11-fanout-stops-at-any-quit", ["C11", "C19"], [(MG, '''	for _, subscriber := range m.subscribers {
		m.notifySubscriber(subscriber, ntfn)
	}
}''', '''	for _, subscriber := range m.subscribers {
		if !m.notifySubscriber(subscriber, ntfn) {
			return
		}
	}
}'''), (MG, '''func (m *SubscriptionManager) notifySubscriber(sub *newSubscription,
	block BlockNtfn) {

	select {
	case sub.ntfnQueue.ChanIn() <- block:
	case <-sub.quit:
	case <-m.quit:
		return
	}
}''', '''func (m *SubscriptionManager) notifySubscriber(sub *newSubscription,
	block BlockNtfn) bool {

	select {
	case sub.ntfnQueue.ChanIn() <- block:
	case <-sub.quit:
		return false
	case <-m.quit:
		return false
	}

	return true
}''')], ["C11.W1", "C19.W2"])

# ---- batch 13 ----
mut("c01-list-capacity-below-a-message", ["C01"], [(BM, "	numMaxMemHeaders = 10000", "	numMaxMemHeaders = 2000")], ["C01.V9"])
mut("c01-quiet-list-capacity-still-above-a-message", ["C01"], [(BM, "	numMaxMemHeaders = 10000", "	numMaxMemHeaders = 4032")], [])
mut("c02-no-list-reset-after-bad-header", ["C02", "C01"], [(BM, '''				hmsg.peer.Disconnect()

				// Earlier headers of this message are already
				// on the header list but will never be written.
				b.resetHeaderListToChainTip()
				return''', '''				hmsg.peer.Disconnect()
				return''')], ["C02.O2", "C01.O1"])
mut("c03-peer-retired-before-match-test", ["C03"], [(BM, '''			m, isCheckpoint := resp.(*wire.MsgCFCheckpt)
			if isCheckpoint {
				if m.FilterType == fType &&
					m.StopHash == *lastHash {

					checkpoints[sp.Addr()] = m.FilterHeaders
					close(peerQuit)
				}
			}''', '''			m, isCheckpoint := resp.(*wire.MsgCFCheckpt)
			if isCheckpoint {
				close(peerQuit)
				if m.FilterType == fType &&
					m.StopHash == *lastHash {

					checkpoints[sp.Addr()] = m.FilterHeaders
				}
			}''')], ["C03.G7"])
mut("c03-cfheaders-peer-retired-on-any-stop-hash", ["C03"], [(BM, '''				if m.StopHash == stopHash &&
					m.FilterType == fType &&
					len(m.FilterHashes) == numHeaders {
''', '''				if m.FilterType == fType &&
					len(m.FilterHashes) == numHeaders {
''')], ["C03.G7"])
mut("c04-offered-work-over-whole-message", ["C04", "C02"], [(BM, '''				totalWork.Add(totalWork,
					blockchain.CalcWork(reorgHeader.Bits))
''', ''), (BM, '''			log.Tracef("Sane reorg attempted. Total work from "+
				"reorg chain: %v", totalWork)
''', '''			for _, offered := range msg.Headers {
				totalWork.Add(totalWork,
					blockchain.CalcWork(offered.Bits))
			}
			log.Tracef("Sane reorg attempted. Total work from "+
				"reorg chain: %v", totalWork)
''')], ["C04.V3", "C02.V7"])
mut("c04-quiet-offered-work-in-second-loop-from-fork", ["C04", "C02"], [(BM, '''				totalWork.Add(totalWork,
					blockchain.CalcWork(reorgHeader.Bits))
''', ''), (BM, '''			log.Tracef("Sane reorg attempted. Total work from "+
				"reorg chain: %v", totalWork)
''', '''			for _, offered := range msg.Headers[i:] {
				totalWork.Add(totalWork,
					blockchain.CalcWork(offered.Bits))
			}
			log.Tracef("Sane reorg attempted. Total work from "+
				"reorg chain: %v", totalWork)
''')], [])
_ANC_OLD = '''	endHeight, err := h.heightFromHash(stopHash)
	if err != nil {
		return nil, 0, err
	}
	startHeight := endHeight - numHeaders

	headers, err := h.readHeaderRange(startHeight, endHeight)'''
mut("c07-ancestors-refuse-ranges-from-genesis", ["C07"], [(ST, _ANC_OLD, '''	endHeight, err := h.heightFromHash(stopHash)
	if err != nil {
		return nil, 0, err
	}
	if numHeaders+1 > endHeight {
		return nil, 0, fmt.Errorf("unable to fetch %d ancestors of "+
			"header at height %d", numHeaders, endHeight)
	}
	startHeight := endHeight - numHeaders

	headers, err := h.readHeaderRange(startHeight, endHeight)''')], ["C07.G3"])
mut("c07-ancestors-refuse-at-equal", ["C07"], [(ST, _ANC_OLD, '''	endHeight, err := h.heightFromHash(stopHash)
	if err != nil {
		return nil, 0, err
	}
	if numHeaders >= endHeight {
		return nil, 0, fmt.Errorf("unable to fetch %d ancestors of "+
			"header at height %d", numHeaders, endHeight)
	}
	startHeight := endHeight - numHeaders

	headers, err := h.readHeaderRange(startHeight, endHeight)''')], ["C07.G3"])
mut("c07-quiet-ancestors-refuse-below-genesis", ["C07"], [(ST, _ANC_OLD, '''	endHeight, err := h.heightFromHash(stopHash)
	if err != nil {
		return nil, 0, err
	}
	if endHeight < numHeaders {
		return nil, 0, fmt.Errorf("unable to fetch %d ancestors of "+
			"header at height %d", numHeaders, endHeight)
	}
	startHeight := endHeight - numHeaders

	headers, err := h.readHeaderRange(startHeight, endHeight)''')], [])
mut("c08-filter-rollback-tested-against-target", ["C08", "C03"], [(BM, "		if uint32(bs.Height) <= regHeight {\n			newFilterTip, err := b.cfg.RegFilterHeaders.RollbackLastBlock(newTip)", "		if regHeight > height {\n			newFilterTip, err := b.cfg.RegFilterHeaders.RollbackLastBlock(newTip)")], ["C08.O8", "C03.O2"])
mut("c09-update-inputs-deduplicated-by-outpoint", ["C09"], [(RS, '''	ro.watchInputs = append(ro.watchInputs, update.inputs...)
''', ''), (RS, '''	for _, input := range update.inputs {
		ro.watchList = append(ro.watchList, input.PkScript)
	}''', '''	for _, input := range update.inputs {
		dup := false
		for _, have := range ro.watchInputs {
			if have.OutPoint == input.OutPoint {
				dup = true
			}
		}
		if dup {
			continue
		}
		ro.watchInputs = append(ro.watchInputs, input)
		ro.watchList = append(ro.watchList, input.PkScript)
	}''')], ["C09.O5"])
mut("c09-quiet-update-inputs-appended-one-by-one", ["C09"], [(RS, '''	ro.watchInputs = append(ro.watchInputs, update.inputs...)
''', ''), (RS, '''	for _, input := range update.inputs {
		ro.watchList = append(ro.watchList, input.PkScript)
	}''', '''	for _, input := range update.inputs {
		ro.watchInputs = append(ro.watchInputs, input)
		ro.watchList = append(ro.watchList, input.PkScript)
	}''')], [])
mut("c11-backlog-ends-at-missing-header", ["C11", "C19"], [(BM, '''		header, err := b.cfg.BlockHeaders.FetchHeaderByHeight(i)
		if err != nil {
			return nil, 0, err
		}

		blocks = append(blocks, blockntfns.NewBlockConnected(*header, i))''', '''		header, err := b.cfg.BlockHeaders.FetchHeaderByHeight(i)
		if err != nil {
			bestHeight = i - 1
			break
		}

		blocks = append(blocks, blockntfns.NewBlockConnected(*header, i))''')], ["C11.V2", "C19.V1"])
mut("c19-backlog-bound-raised-to-header-tip", ["C19", "C11"], [(BM, '''	b.newFilterHeadersMtx.RLock()
	bestHeight := b.filterHeaderTip
	b.newFilterHeadersMtx.RUnlock()

	// If a height of 0 is provided by the caller, then a backlog of''', '''	b.newHeadersMtx.RLock()
	b.newFilterHeadersMtx.RLock()
	bestHeight := b.filterHeaderTip
	if bestHeight < b.headerTip {
		bestHeight = b.headerTip
	}
	b.newFilterHeadersMtx.RUnlock()
	b.newHeadersMtx.RUnlock()

	// If a height of 0 is provided by the caller, then a backlog of''')], ["C19.V1", "C11.V2"])
mut("c12-disconnect-result-forgets-worker", ["C12"], [(WM, '''					w.cfg.Ranking.ResetRanking(
						result.peer.Addr(),
					)
''', '''					w.cfg.Ranking.ResetRanking(
						result.peer.Addr(),
					)
					delete(workers, result.peer.Addr())
''')], ["C12.G4"])
mut("c14-fast-add-for-headers-that-cannot-fail", ["C14"], [(BHV, '''	if err := blockchain.CheckBlockHeaderContext(
		currBlockHeader.BlockHeader, parentCtx, v.flags, chainCtx, true,
	); err != nil {''', '''	flags := v.flags
	if currBlockHeader.Bits == prevBlockHeader.Bits &&
		currBlockHeader.Timestamp.After(prevBlockHeader.Timestamp) {

		flags |= blockchain.BFFastAdd
	}
	if err := blockchain.CheckBlockHeaderContext(
		currBlockHeader.BlockHeader, parentCtx, flags, chainCtx, true,
	); err != nil {''')], ["C14.G1"])
mut("c14-quiet-flags-through-a-local", ["C14"], [(BHV, '''	if err := blockchain.CheckBlockHeaderContext(
		currBlockHeader.BlockHeader, parentCtx, v.flags, chainCtx, true,
	); err != nil {''', '''	flags := v.flags
	if err := blockchain.CheckBlockHeaderContext(
		currBlockHeader.BlockHeader, parentCtx, flags, chainCtx, true,
	); err != nil {''')], [])
mut("c15-threshold-widened", ["C15"], [(Q, '''		numInvalid := float32(rejectCodes[pushtx.Invalid])
		numPeersResponded := float32(len(replies))
''', '''		numInvalid := float64(rejectCodes[pushtx.Invalid])
		numPeersResponded := float64(len(replies))
'''), (Q, "		if numInvalid/numPeersResponded >= qo.invalidTxThreshold {", "		if numInvalid/numPeersResponded >= float64(qo.invalidTxThreshold) {")], ["C15.T1"])
mut("c16-range-is-the-list-walk", ["C16"], [(LRU, '''	// valueVisitor is a closure to help unwrap the value from the cache.
	valueVisitor := func(key K, value *Element[entry[K, V]]) bool {
		return visitor(key, value.Value.value)
	}

	c.cache.Range(valueVisitor)''', '''	c.RangeFIFO(visitor)''')], ["C16.W1"])
mut("c18-close-once-by-plain-flag", ["C18"], [(Q, "	once    sync.Once\n}", "	closed  bool\n}"), (Q, '''	t.once.Do(func() {
		close(t.subject)
	})''', '''	if t.closed {
		return
	}

	t.closed = true
	close(t.subject)''')], ["C18.R8"])

# ---- batch 14 ----
mut("c13-ban-recorded-under-a-wider-network", ["C13", "C06"], [(N, '''	ipNet, err := banman.ParseIPNet(addr, nil)
	if err != nil {
		return fmt.Errorf("unable to parse IP network for peer %v: %v",
			addr, err)
	}
	return s.banStore.BanIPNet(ipNet, reason, BanDuration)''', '''	ipNet, err := banman.ParseIPNet(addr, nil)
	if err == nil && ipNet.IP.To4() == nil {
		ipNet, err = banman.ParseIPNet(addr, net.CIDRMask(64, 128))
	}
	if err != nil {
		return fmt.Errorf("unable to parse IP network for peer %v: %v",
			addr, err)
	}
	return s.banStore.BanIPNet(ipNet, reason, BanDuration)''')], ["C13.T5", "C06.V3"])
mut("c07-last-prefix-bucket-missing", ["C07"], [(IDX, "	for i := 0; i <= 0xffff; i++ {", "	for i := 0; i < 0xffff; i++ {")], ["C07.V6"])
mut("c07-quiet-prefix-buckets-counted-to-65536", ["C07"], [(IDX, "	for i := 0; i <= 0xffff; i++ {", "	for i := 0; i < 0x10000; i++ {")], [])
mut("c10-bad-index-ends-the-transaction-loop", ["C10"], [(BSR, '''				initialTxns[op] = nil
				continue
			}

			h := block.BlockHash()''', '''				initialTxns[op] = nil
				break
			}

			h := block.BlockHash()''')], ["C10.V6"])
mut("c12-finished-behind-progressed", ["C12"], [("query/worker.go", '''				if !progress.Finished {
					// If it did make progress we reset the
					// timeout. This ensures that the
					// queries with multiple responses
					// expected won't timeout before all
					// responses have been handled.
					// TODO(halseth): separate progress
					// timeout value.
					if progress.Progressed {
						timeout.Stop()
						timeout = time.NewTimer(
							job.timeout,
						)
					}
					continue Loop
				}''', '''				if !progress.Progressed {
					continue Loop
				}
				if !progress.Finished {
					timeout.Stop()
					timeout = time.NewTimer(job.timeout)
					continue Loop
				}''')], ["C12.O7"])
mut("c15-mempool-judged-on-the-raw-error", ["C15"], [(PB, '''			if err != nil {
				// We apply the custom err mapping function if
				// it was supplied which allows to map other
				// backend errors to the neutrino BroadcastError.
				if b.cfg.MapCustomBroadcastError != nil {
					err = b.cfg.MapCustomBroadcastError(err)
				}
				if !IsBroadcastError(err, Mempool) {
					log.Errorf("Broadcast attempt "+
						"failed: %v", err)
					req.errChan <- err
					continue
				}
			}''', '''			if err != nil && !IsBroadcastError(err, Mempool) {
				if b.cfg.MapCustomBroadcastError != nil {
					err = b.cfg.MapCustomBroadcastError(err)
				}

				log.Errorf("Broadcast attempt failed: %v", err)
				req.errChan <- err
				continue
			}''')], ["C15.G3"])
mut("c18-banpeer-counts-its-goroutine", ["C18", "C17"], [(N, '''		go func() {
			if sp := s.PeerByAddr(addr); sp != nil {
				sp.Disconnect()
			}
		}()''', '''		s.wg.Add(1)
		go func() {
			defer s.wg.Done()

			if sp := s.PeerByAddr(addr); sp != nil {
				sp.Disconnect()
			}
		}()''')], ["C18.R9", "C17.O7"])
mut("c17-shutdown-sweep-on-one-quit-arm-only", ["C17", "C12"], [(WM, '''	// When the work dispatcher exits, we'll loop through the remaining
	// batches and send on their error channel.
	defer func() {
		for _, b := range currentBatches {
			b.errChan <- ErrWorkManagerShuttingDown
			stopTimers(b)
		}
	}()

''', ''), (WM, '''			currentBatches[batchIndex] = bp
			batchIndex++

		case <-w.quit:
			return''', '''			currentBatches[batchIndex] = bp
			batchIndex++

		case <-w.quit:
			for _, b := range currentBatches {
				b.errChan <- ErrWorkManagerShuttingDown
				stopTimers(b)
			}

			return''')], ["C17.X2", "C12.X1"])
mut("c02-block-store-rolled-back-first", ["C02", "C03"], [(BM, '''		bs, err = b.cfg.BlockHeaders.RollbackLastBlock()
		if err != nil {
			return err
		}

		// Notifications are asynchronous, so we include the previous''', '''		// Notifications are asynchronous, so we include the previous'''), (BM, '''		newTip := &header.PrevBlock

		// Only roll back filter headers if they've caught up this far.''', '''		newTip := &header.PrevBlock

		oldHeight := uint32(bs.Height)
		bs, err = b.cfg.BlockHeaders.RollbackLastBlock()
		if err != nil {
			return err
		}
		_ = oldHeight

		// Only roll back filter headers if they've caught up this far.''')], ["C02.O3", "C03.O2"])
mut("c04-branch-not-kept-on-the-reorg-list", ["C04", "C02"], [(BM, '''				b.reorgList.PushBack(headerlist.Node{
					Header: *reorgHeader,
					Height: int32(backHeight+1) + int32(j),
				})
''', '')], ["C04.V4", "C02.V4"])

# ---- batch 15 ----
mut("c03-end-checkpoint-from-the-answer-length", ["C03"], [(BM, '''	nextCheckPointIndex := checkPointIndex + maxCFCheckptsPerQuery - 1
	if nextCheckPointIndex >= uint32(len(c.checkpoints)) {
		nextCheckPointIndex = uint32(len(c.checkpoints)) - 1
	}''', '''	nextCheckPointIndex := checkPointIndex + uint32(len(r.FilterHashes))/wire.CFCheckptInterval - 1
	if nextCheckPointIndex >= uint32(len(c.checkpoints)) {
		nextCheckPointIndex = uint32(len(c.checkpoints)) - 1
	}''')], ["C03.V6"])
mut("c12-job-popped-before-the-handover", ["C12"], [(WM, '''			next := work.Peek().(*queryJob)
''', ''), (WM, '''			for _, p := range freeWorkers {
				r := workers[p]
''', '''			var next *queryJob
			if len(freeWorkers) > 0 {
				next = heap.Pop(work).(*queryJob)
			}

			for _, p := range freeWorkers {
				r := workers[p]
'''), (WM, '''					heap.Pop(work)
					r.activeJob = next''', '''					r.activeJob = next''')], ["C12.O8"])
mut("c10-manager-parks-on-the-request-it-just-tried", ["C10"], [(US, '''		for s.pq.IsEmpty() {
			s.cv.Wait()
''', '''		for s.pq.IsEmpty() || s.pq.Peek() == zzLast {
			s.cv.Wait()
			zzLast = nil
'''), (US, '''		req := s.pq.Peek()
		s.cv.L.Unlock()
''', '''		req := s.pq.Peek()
		zzLast = req
		s.cv.L.Unlock()
'''), (US, '''	defer close(s.shutdown)

	for {
		s.cv.L.Lock()''', '''	defer close(s.shutdown)

	var zzLast *GetUtxoRequest
	for {
		s.cv.L.Lock()''')], ["C10.G2"])
mut("c05-cached-prefix-dropped-from-block-headers-only", ["C05"], [(Q, '''	headerIndex := make(map[chainhash.Hash]int, len(blockHeaders)-1)
	for i := 1; i < len(blockHeaders); i++ {''', '''	for startHeight < int64(height) {
		lowestHash := blockHeaders[1].BlockHash()
		if _, err := s.getFilterFromCache(
			&lowestHash, filterdb.RegularFilter,
		); err != nil {
			break
		}
		blockHeaders = blockHeaders[1:]
		startHeight++
	}
	headerIndex := make(map[chainhash.Hash]int, len(blockHeaders)-1)
	for i := 1; i < len(blockHeaders); i++ {''')], ["C05.V6"])
mut("c09-spent-input-dropped-from-the-watch-set", ["C09"], [(RS, '''		for _, input := range ro.watchInputs {
			switch {''', '''		for i, input := range ro.watchInputs {
			switch {'''), (RS, '''			case in.PreviousOutPoint == input.OutPoint:
				return true''', '''			case in.PreviousOutPoint == input.OutPoint:
				ro.watchInputs = append(
					ro.watchInputs[:i], ro.watchInputs[i+1:]...,
				)
				return true''')], ["C09.V6"])
mut("c18-rank-reset-by-the-worker-goroutine", ["C18"], [(WM, '''				r.Run(w.jobResults, w.quit)
			}()''', '''				r.Run(w.jobResults, w.quit)
				w.cfg.Ranking.ResetRanking(peer.Addr())
			}()''')], ["C18.R10"])
mut("c04-done-peer-reported-only-after-verack", ["C04"], [(N, '''	select {
	case s.donePeers <- sp:
	case <-s.quit:
		return
	}

	// Only tell block manager we are gone if we ever told it we existed.
	if sp.VersionKnown() {
		s.blockManager.DonePeer(sp)
	}''', '''	if sp.VerAckReceived() {
		select {
		case s.donePeers <- sp:
		case <-s.quit:
			return
		}

		s.blockManager.DonePeer(sp)
	}''')], ["C04.O9"])
mut("c14-store-not-asked-for-some-heights", ["C14"], [(BHV, '''	ancestor, err := targetStore.FetchHeaderByHeight(ancestorHeight)
	if err == nil {
		return &lightHeaderCtx{
			height:    int32(ancestorHeight),
			bits:      ancestor.Bits,
			timestamp: ancestor.Timestamp.Unix(),
			validator: l.validator,
		}
	}
''', '''	if distance > 1 {
		ancestor, err := targetStore.FetchHeaderByHeight(ancestorHeight)
		if err == nil {
			return &lightHeaderCtx{
				height:    int32(ancestorHeight),
				bits:      ancestor.Bits,
				timestamp: ancestor.Timestamp.Unix(),
				validator: l.validator,
			}
		}
	}
''')], ["C14.O3"])
mut("c07-block-store-reconciles-against-the-tip-height", ["C07", "C08"], [(ST, '''	latestFileHeader, err := bhs.readHeader(fileHeight)
	if err != nil {
		return nil, err
	}''', '''	latestFileHeader, err := bhs.readHeader(tipHeight)
	if err != nil {
		return nil, err
	}''')], ["C07.O7", "C08.O4"])
mut("c17-queries-dropped-once-shutting-down", ["C17"], [(N, '''		case qmsg := <-s.query:
			s.handleQuery(state, qmsg)
''', '''		case qmsg := <-s.query:
			if atomic.LoadInt32(&s.shutdown) != 0 {
				continue
			}
			s.handleQuery(state, qmsg)
''')], ["C17.X3"])
mut("c17-batch-manager-leaves-shutdown-to-the-scan", ["C17"], [(US, '''		// Break out now before starting a scan if a shutdown was
		// requested.
		select {
		case <-s.quit:
			return
		default:
		}

''', '''''')], ["C17.O8"])
mut("quiet-validators-behind-package-variables", ["C01", "C02"], [(BM, '''	err := blockchain.CheckBlockHeaderContext(
		blockHeader, parentHeaderCtx, emptyFlags, chainCtx, true,
	)''', '''	err := zzCheckContext(
		blockHeader, parentHeaderCtx, emptyFlags, chainCtx, true,
	)''')], [], new_files=[("zz_seams.go", '''package neutrino

import "github.com/btcsuite/btcd/blockchain"

var zzCheckContext = blockchain.CheckBlockHeaderContext
''')])
mut("c01-validator-variable-reassigned-elsewhere", ["C01"], [(BM, '''	err := blockchain.CheckBlockHeaderContext(
		blockHeader, parentHeaderCtx, emptyFlags, chainCtx, true,
	)''', '''	err := zzCheckContext(
		blockHeader, parentHeaderCtx, emptyFlags, chainCtx, true,
	)''')], ["C01.G2"], new_files=[("zz_seams.go", '''package neutrino

import (
	"github.com/btcsuite/btcd/blockchain"
	"github.com/btcsuite/btcd/chaincfg/v2"
	"github.com/btcsuite/btcd/wire/v2"
)

var zzCheckContext = blockchain.CheckBlockHeaderContext

// SkipContextChecks turns the contextual header checks off.
func SkipContextChecks() {
	zzCheckContext = func(*wire.BlockHeader, blockchain.HeaderCtx,
		blockchain.BehaviorFlags, blockchain.ChainCtx, bool) error {

		return nil
	}
	_ = chaincfg.MainNetParams
}
''')])

# ---- batch 16 ----
HI = "chainimport/headers_import.go"
mut("c14-batch-loop-exit-at-end-index", ["C14"], [(HI, '''		batchStartIdx += batchEnd - batchStart + 1
		batchStart = batchEnd + 1
	}
''', '''		batchStartIdx += batchEnd - batchStart + 1
		batchStart = batchEnd + 1
		if batchStartIdx >= sourceEndIdx {
			break
		}
	}
''')], ["C14.V5"])
mut("c14-batch-loop-exit-at-end-height", ["C14"], [(HI, '''		batchStartIdx += batchEnd - batchStart + 1
		batchStart = batchEnd + 1
	}
''', '''		batchStartIdx += batchEnd - batchStart + 1
		batchStart = batchEnd + 1
		if batchEnd == endHeight-1 {
			return nil
		}
	}
''')], ["C14.V5"])
mut("c14-quiet-batch-loop-exit-past-end", ["C14"], [(HI, '''		batchStartIdx += batchEnd - batchStart + 1
		batchStart = batchEnd + 1
	}
''', '''		batchStartIdx += batchEnd - batchStart + 1
		batchStart = batchEnd + 1
		if batchStart > endHeight {
			break
		}
	}
''')], [])
PB = "pushtx/broadcaster.go"
mut("c15-skip-notification-at-known-height", ["C15"], [(PB, '''		case _, ok := <-sub.Notifications:
			if !ok {
				log.Warn("Unable to rebroadcast transactions: " +
					"block subscription was canceled")
				continue
			}
			triggerRebroadcast()
''', '''		case ntfn, ok := <-sub.Notifications:
			if !ok {
				log.Warn("Unable to rebroadcast transactions: " +
					"block subscription was canceled")
				continue
			}
			if _, isConn := ntfn.(*blockntfns.Connected); isConn && ntfn.Height() <= zzBest {
				continue
			}
			zzBest = ntfn.Height()
			triggerRebroadcast()
''')], ["C15.O1"], new_files=[("pushtx/zz_best.go", "package pushtx\n\nvar zzBest uint32\n")])
mut("c15-tick-without-trigger", ["C15"], [(PB, '''		case <-reBroadcastTicker.C:
			triggerRebroadcast()
''', '''		case <-reBroadcastTicker.C:
			if len(transactions) > 8 {
				triggerRebroadcast()
			}
''')], ["C15.O1"])
mut("c15-quiet-trigger-written-out-per-arm", ["C15"], [(PB, '''		case <-reBroadcastTicker.C:
			triggerRebroadcast()
''', '''		case <-reBroadcastTicker.C:
			log.Tracef("Rebroadcast interval elapsed")
			triggerRebroadcast()
''')], [])

# ---- batch 17 ----
mut("c02-prev-checkpoint-scan-skips-first", ["C01", "C02"], [(BM, '''	checkpoints := b.cfg.ChainParams.Checkpoints
	for i := 0; i < len(checkpoints); i++ {
		if height <= checkpoints[i].Height {
			break
		}
		prevCheckpoint = &checkpoints[i]
	}
''', '''	checkpoints := b.cfg.ChainParams.Checkpoints
	for i := len(checkpoints) - 1; i > 0; i-- {
		if height > checkpoints[i].Height {
			return &checkpoints[i]
		}
	}
''')], ["C01.G8", "C02.G6"])
mut("c02-quiet-prev-checkpoint-scan-downwards", ["C01", "C02"], [(BM, '''	checkpoints := b.cfg.ChainParams.Checkpoints
	for i := 0; i < len(checkpoints); i++ {
		if height <= checkpoints[i].Height {
			break
		}
		prevCheckpoint = &checkpoints[i]
	}
''', '''	checkpoints := b.cfg.ChainParams.Checkpoints
	for i := len(checkpoints) - 1; i >= 0; i-- {
		if height > checkpoints[i].Height {
			return &checkpoints[i]
		}
	}
''')], [])
mut("c04-inv-locator-backup-only-when-different", ["C04"], [(BM, '''			knownLocator, err := b.cfg.BlockHeaders.LatestBlockLocator()
			if err == nil {
				locator = append(locator, knownLocator...)
			}
''', '''			knownLocator, err := b.cfg.BlockHeaders.LatestBlockLocator()
			if err == nil && len(knownLocator) > 0 && *knownLocator[0] != lastHash {
				locator = append(locator, knownLocator...)
			}
''')], ["C04.O3"])
HF = "headerfs/file.go"
mut("c07-offset-product-in-32-bits", ["C07"], [(HF, '''	seekDistance := uint64(height) * 80
''', '''	seekDistance := uint64(height * 80)
''')], ["C07.V7"])
mut("c07-quiet-offset-helper-64-bits", ["C07"], [(HF, '''	seekDistance := uint64(height) * 80
''', '''	seekDistance := zzOffset(height, 80)
'''), (HF, '''	seekDistance := uint64(height) * 32
''', '''	seekDistance := zzOffset(height, 32)
''')], [], new_files=[("headerfs/zz_offset.go", "package headerfs\n\nfunc zzOffset(height, size uint32) uint64 { return uint64(height) * uint64(size) }\n")])

# ---- batch 19 ----
mut("c01-checkpoint-cursor-advanced-before-the-write", ["C01"], [(BM, '''			if nodeHash.IsEqual(b.nextCheckpoint.Hash) {
				receivedCheckpoint = true
''', '''			if nodeHash.IsEqual(b.nextCheckpoint.Hash) {
				receivedCheckpoint = true
				b.nextCheckpoint = b.findNextHeaderCheckpoint(node.Height)
''')], ["C01.O9"])
mut("c01-inv-checkpoint-cursor-rederived-by-the-abandon-helper", ["C01"], [(BM, '''			if nodeHash.IsEqual(b.nextCheckpoint.Hash) {
				receivedCheckpoint = true
''', '''			if nodeHash.IsEqual(b.nextCheckpoint.Hash) {
				receivedCheckpoint = true
				zzNoteCheckpoint(node.Height)
''')], [], new_files=[("zz_note.go", "package neutrino\n\nfunc zzNoteCheckpoint(h int32) { log.Tracef(\"checkpoint at %d\", h) }\n")])
HI = "headerfs/index.go"
mut("c07-height-lookup-served-from-a-memo", ["C07"], [(HI, '''func (h *headerIndex) heightFromHash(hash *chainhash.Hash) (uint32, error) {
	var height uint32
''', '''func (h *headerIndex) heightFromHash(hash *chainhash.Hash) (uint32, error) {
	if v, ok := zzHeights.Load(*hash); ok {
		return v.(uint32), nil
	}
	var height uint32
''')], ["C07.V9"], new_files=[("headerfs/zz_memo.go", "package headerfs\n\nimport \"sync\"\n\nvar zzHeights sync.Map\n")])
mut("c04-cfheaders-paired-with-blocks-by-height", ["C03", "C04"], [(BM, '''	matchingBlockHeaders, startHeight, err := blockHeaders.FetchHeaderAncestors(
		uint32(numHeaders-1), &msg.StopHash,
	)
''', '''	zzTip, _, _ := blockHeaders.ChainTip()
	zzStop := zzTip.BlockHash()
	matchingBlockHeaders, startHeight, err := blockHeaders.FetchHeaderAncestors(
		uint32(numHeaders-1), &zzStop,
	)
''')], ["C04.G2", "C03.G1"])
