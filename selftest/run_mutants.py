#!/usr/bin/env python3
"""Self-test of the analyser: applies each source mutant of mutants.py to a
scratch copy of /repo (never to /repo itself), checks that the copy still
builds, runs the analyser on it and compares the failing rules with the
expectation. Quiet variants (behaviour-preserving refactors) must produce no
violation. Usage: run_mutants.py [-k substring] [-j N] [--tier quick|thorough]
"""
import argparse, json, os, re, shutil, subprocess, sys, tempfile, concurrent.futures as cf

HERE = os.path.dirname(os.path.abspath(__file__))
VERIF = os.path.dirname(HERE)
sys.path.insert(0, HERE)
from mutants import MUTANTS  # noqa

ENV = None
def env():
    global ENV
    if ENV is None:
        out = subprocess.run(["sh", "-c", ". %s/env.sh; env" % VERIF], capture_output=True, text=True).stdout
        ENV = dict(l.split("=", 1) for l in out.splitlines() if "=" in l)
    return ENV

def run_one(m, tier, keep=False):
    d = tempfile.mkdtemp(prefix="nvmut-")
    try:
        subprocess.run(["rsync", "-a", "--exclude", ".git", "/repo/", d + "/"], check=True)
        for e in m["edits"]:
            path, old, new = e[0], e[1], e[2]
            every = len(e) > 3 and e[3] == "all"
            p = os.path.join(d, path)
            s = open(p).read()
            if (s.count(old) != 1 and not every) or s.count(old) == 0:
                return dict(name=m["name"], status="STALE", detail="%s: pattern occurs %d times" % (path, s.count(old)))
            open(p, "w").write(s.replace(old, new))
        for (path, content) in m.get("new_files", []):
            open(os.path.join(d, path), "w").write(content)
        builddirs = sorted({("cache" if e[0].startswith("cache/") else ".") for e in m["edits"]} | {("cache" if f[0].startswith("cache/") else ".") for f in m.get("new_files", [])})
        for bd in builddirs:
            b = subprocess.run(["go", "build", "./..."], cwd=os.path.join(d, bd), env=env(), capture_output=True, text=True)
            if b.returncode != 0:
                return dict(name=m["name"], status="NOBUILD", detail=b.stderr[-600:])
        vdir = tempfile.mkdtemp(prefix="nvmutv-")
        shutil.copy(os.path.join(VERIF, "known_findings.json"), vdir)
        props = ",".join(m["props"])
        r = subprocess.run([os.path.join(VERIF, "bin/nvet"), "-prop", props, "-tier", tier, "-repo", d, "-verif", vdir],
                           env=env(), capture_output=True, text=True)
        shutil.rmtree(vdir, ignore_errors=True)
        rules = sorted(set(re.findall(r"^(?:VIOLATION|UNDECIDED): \S+ (\S+) ", r.stdout, re.M)))
        broken = "CHECK-BROKEN" in r.stdout
        exp = m.get("expect", [])
        if broken:
            st = "BROKEN"
        elif not exp:
            st = "OK" if not rules and r.returncode == 0 else "FALSE-ALARM"
        else:
            st = "OK" if all(e in rules for e in exp) and r.returncode == 1 else "MISSED"
        return dict(name=m["name"], status=st, rules=rules, expect=exp, rc=r.returncode,
                    detail="" if st == "OK" else r.stdout[-1500:])
    finally:
        if not keep:
            shutil.rmtree(d, ignore_errors=True)

def main():
    ap = argparse.ArgumentParser()
    ap.add_argument("-k", default="")
    ap.add_argument("-j", type=int, default=6)
    ap.add_argument("--tier", default="quick")
    a = ap.parse_args()
    subprocess.run(["sh", "-c", "cd %s && . ./env.sh && cd checker && go build -o ../bin/nvet ./cmd/nvet" % VERIF], check=True)
    ms = [m for m in MUTANTS if a.k in m["name"]]
    bad = 0
    with cf.ThreadPoolExecutor(a.j) as ex:
        for res in ex.map(lambda m: run_one(m, a.tier), ms):
            print("%-12s %-55s expect=%s got=%s" % (res["status"], res["name"], res.get("expect"), res.get("rules")))
            if res["status"] != "OK":
                bad += 1
                print("    " + res.get("detail", "").replace("\n", "\n    "))
    print("%d mutants, %d not OK" % (len(ms), bad))
    sys.exit(1 if bad else 0)

main()
