package demo

import (
	"io"
	"os"
	"path/filepath"
	"testing"
	"time"

	"github.com/btcsuite/btcd/chaincfg/v2"
	"github.com/btcsuite/btcd/wire/v2"
	"github.com/btcsuite/btcwallet/walletdb"
	_ "github.com/btcsuite/btcwallet/walletdb/bdb"
	"github.com/lightninglabs/neutrino/headerfs"
)

func mkHeaders(n int) []headerfs.BlockHeader {
	prev := chaincfg.SimNetParams.GenesisBlock.Header.BlockHash()
	var out []headerfs.BlockHeader
	for i := 1; i <= n; i++ {
		h := &wire.BlockHeader{PrevBlock: prev, Nonce: uint32(i), Timestamp: time.Unix(int64(1600000000+i), 0)}
		prev = h.BlockHash()
		out = append(out, headerfs.BlockHeader{BlockHeader: h, Height: uint32(i)})
	}
	return out
}

// F5: crash between file truncate and index update during rollback.
func TestF5CrashBetweenTruncateAndIndex(t *testing.T) {
	dir := t.TempDir()
	db, err := walletdb.Create("bdb", filepath.Join(dir, "n.db"), true, time.Second*10, false)
	if err != nil {
		t.Fatal(err)
	}
	defer db.Close()
	s, err := headerfs.NewBlockHeaderStore(dir, db, &chaincfg.SimNetParams)
	if err != nil {
		t.Fatal(err)
	}
	if err := s.WriteHeaders(mkHeaders(5)...); err != nil {
		t.Fatal(err)
	}
	// Simulate the first durable step of RollbackBlockHeaders(1) (file
	// truncate) having happened, then process death before truncateIndices.
	fn := filepath.Join(dir, "block_headers.bin")
	fi, _ := os.Stat(fn)
	if err := os.Truncate(fn, fi.Size()-80); err != nil {
		t.Fatal(err)
	}
	_, err = headerfs.NewBlockHeaderStore(dir, db, &chaincfg.SimNetParams)
	t.Logf("reopen after crash-between-truncate-and-index: err=%v", err)
	if err == nil {
		t.Fatalf("expected reopen failure (finding F5 not reproduced)")
	}
}

// F7: Seek(0, SeekCurrent) on a freshly opened O_APPEND file is 0, not EOF.
func TestF7SeekCurrentOnAppendFile(t *testing.T) {
	dir := t.TempDir()
	fn := filepath.Join(dir, "f.bin")
	os.WriteFile(fn, make([]byte, 800), 0644)
	f, _ := os.OpenFile(fn, os.O_RDWR|os.O_APPEND|os.O_CREATE, 0644)
	defer f.Close()
	pos, _ := f.Seek(0, io.SeekCurrent)
	end, _ := f.Seek(0, io.SeekEnd)
	t.Logf("SeekCurrent after open=%d, SeekEnd=%d", pos, end)
	if pos == end {
		t.Fatalf("finding F7 premise false")
	}
}
