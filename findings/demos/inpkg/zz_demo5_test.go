package neutrino

import (
	"testing"
	"time"

	"github.com/btcsuite/btcd/chaincfg/v2"
	"github.com/btcsuite/btcd/chainhash/v2"
	"github.com/btcsuite/btcd/peer"
	"github.com/btcsuite/btcd/wire/v2"
	"github.com/stretchr/testify/require"
)

// F17: in-memory filterHeaderTip is not maintained by rollBackToHeight.
func TestDemoF17(t *testing.T) {
	bm, hdrStore, cfStore, err := setupBlockManager(t)
	require.NoError(t, err)
	go func() {
		for range bm.blockNtfnChan {
		}
	}()
	p, err := peer.NewOutboundPeer(&peer.Config{}, "1.2.3.4:18555")
	require.NoError(t, err)
	sp := &ServerPeer{Peer: p}

	prev := &chaincfg.SimNetParams.GenesisBlock.Header
	ts := prev.Timestamp
	var hs []*wire.BlockHeader
	for i := 1; i <= 5; i++ {
		ts = ts.Add(time.Minute)
		h := demoMine(prev, ts, true)
		hs = append(hs, h)
		prev = h
	}
	bm.handleHeadersMsg(&headersMsg{headers: &wire.MsgHeaders{Headers: hs}, peer: sp})
	_, bh, _ := hdrStore.ChainTip()

	ftip, _, _ := cfStore.ChainTip()
	stop := hs[4].BlockHash()
	msg := &wire.MsgCFHeaders{FilterType: wire.GCSFilterRegular, StopHash: stop, PrevFilterHeader: *ftip}
	for i := 0; i < 5; i++ {
		fh := chainhash.DoubleHashH([]byte{byte(i)})
		msg.FilterHashes = append(msg.FilterHashes, &fh)
	}
	_, fh, err := bm.writeCFHeadersMsg(msg, cfStore)
	require.NoError(t, err)
	t.Logf("synced: block tip=%d filter tip=%d in-memory filterHeaderTip=%d", bh, fh, bm.filterHeaderTip)

	require.NoError(t, bm.rollBackToHeight(3))
	_, bh, _ = hdrStore.ChainTip()
	_, fh, _ = cfStore.ChainTip()
	t.Logf("after rollBackToHeight(3): block store tip=%d filter store tip=%d in-memory filterHeaderTip=%d", bh, fh, bm.filterHeaderTip)
	ntfns, best, err := bm.NotificationsSinceHeight(3)
	t.Logf("NotificationsSinceHeight(3): %d ntfns best=%d err=%v", len(ntfns), best, err)
	if bm.filterHeaderTip == fh && err == nil {
		t.Fatalf("mirror consistent: F17 not reproduced")
	}
}
