package headerfs

import (
	"sync/atomic"
	"testing"
	"time"

	"github.com/btcsuite/btcd/wire/v2"
	"github.com/stretchr/testify/require"
)

// pausingFile wraps the flat header file and pauses the first ReadAt call made
// after it was armed, which allows a test to deterministically interleave
// another goroutine with a store method that already consulted the index but
// did not yet read the file.
type pausingFile struct {
	File

	armed atomic.Bool

	// entered is closed once the first ReadAt call was reached.
	entered chan struct{}

	// resume is closed by the test to let the paused ReadAt call continue.
	resume chan struct{}
}

// ReadAt signals that the file was reached and waits for the test's go-ahead
// on the first call, every other call is passed through immediately.
func (p *pausingFile) ReadAt(b []byte, off int64) (int, error) {
	if p.armed.CompareAndSwap(true, false) {
		close(p.entered)
		<-p.resume
	}

	return p.File.ReadAt(b, off)
}

// TestFetchHeaderAncestorsAtomic makes sure that FetchHeaderAncestors resolves
// the stop hash in the index and reads the range of headers from the flat file
// as a single step with respect to writers. If a re-org is able to slip in
// between the two, the heights computed from the index no longer belong to the
// chain of the stop hash and the caller is handed headers of another branch as
// the ancestors of the stop hash.
func TestFetchHeaderAncestorsAtomic(t *testing.T) {
	cleanUp, _, _, bhs, err := createTestBlockHeaderStore()
	if cleanUp != nil {
		defer cleanUp()
	}
	require.NoError(t, err)

	// We'll start out with a chain of 20 headers and pick the header at
	// height 15 as the end of the range we'll query for.
	const (
		numHeaders   = 20
		stopHeight   = 15
		numAncestors = 5
		forkHeight   = 10
	)
	chainA := createTestBlockHeaderChain(numHeaders)
	require.NoError(t, bhs.WriteHeaders(chainA...))
	stopHash := chainA[stopHeight-1].BlockHash()

	wantHeaders := make([]wire.BlockHeader, 0, numAncestors+1)
	for i := stopHeight - numAncestors; i <= stopHeight; i++ {
		wantHeaders = append(wantHeaders, *chainA[i-1].BlockHeader)
	}

	// A competing branch that forks off at height 10.
	chainB := make([]BlockHeader, 0, numHeaders-forkHeight)
	prevHeader := chainA[forkHeight-1].BlockHeader
	for i := uint32(forkHeight + 1); i <= numHeaders; i++ {
		header := &wire.BlockHeader{
			Bits:      uint32(i),
			Nonce:     uint32(i) * 7,
			Timestamp: prevHeader.Timestamp.Add(time.Hour),
			PrevBlock: prevHeader.BlockHash(),
		}
		chainB = append(chainB, BlockHeader{
			BlockHeader: header,
			Height:      i,
		})
		prevHeader = header
	}

	// From now on, the first read of the flat file is paused. The ancestor
	// query reaches the file only after it resolved the stop hash.
	pauseFile := &pausingFile{
		File:    bhs.file,
		entered: make(chan struct{}),
		resume:  make(chan struct{}),
	}
	pauseFile.armed.Store(true)
	bhs.file = pauseFile

	type result struct {
		headers     []wire.BlockHeader
		startHeight uint32
		err         error
	}
	fetchDone := make(chan result, 1)
	go func() {
		headers, startHeight, err := bhs.FetchHeaderAncestors(
			numAncestors, &stopHash,
		)
		fetchDone <- result{headers, startHeight, err}
	}()

	select {
	case <-pauseFile.entered:
	case <-time.After(10 * time.Second):
		close(pauseFile.resume)
		t.Fatalf("ancestor query never reached the file")
	}

	// Now a re-org to the competing branch shows up. It must not be able
	// to get in between the two halves of the query.
	reorgDone := make(chan error, 1)
	go func() {
		_, err := bhs.RollbackBlockHeaders(numHeaders - forkHeight)
		if err != nil {
			reorgDone <- err
			return
		}

		reorgDone <- bhs.WriteHeaders(chainB...)
	}()

	reorgFirst := false
	select {
	case err := <-reorgDone:
		require.NoError(t, err)
		reorgFirst = true

	case <-time.After(500 * time.Millisecond):
	}

	close(pauseFile.resume)

	var res result
	select {
	case res = <-fetchDone:
	case <-time.After(10 * time.Second):
		t.Fatalf("ancestor query didn't return")
	}
	if !reorgFirst {
		select {
		case err := <-reorgDone:
			require.NoError(t, err)
		case <-time.After(10 * time.Second):
			t.Fatalf("re-org didn't return")
		}
	}

	// The query was started while the stop hash was part of the chain, so
	// the only valid answer is its true ancestors.
	require.NoError(t, res.err)
	require.EqualValues(t, stopHeight-numAncestors, res.startHeight)
	lastHash := res.headers[len(res.headers)-1].BlockHash()
	require.Equal(t, stopHash, lastHash)
	require.Equal(t, wantHeaders, res.headers)
	require.False(
		t, reorgFirst, "re-org completed in the middle of the query",
	)
}
