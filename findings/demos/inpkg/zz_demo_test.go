package neutrino

import (
	"container/list"
	"errors"
	"testing"
	"time"

	"github.com/btcsuite/btcd/blockchain"
	"github.com/btcsuite/btcd/btcutil/v2"
	"github.com/btcsuite/btcd/chaincfg/v2"
	"github.com/btcsuite/btcd/chainhash/v2"
	"github.com/btcsuite/btcd/peer"
	"github.com/btcsuite/btcd/wire/v2"
	"github.com/lightninglabs/neutrino/headerfs"
	"github.com/stretchr/testify/require"
)

func demoMine(prev *wire.BlockHeader, ts time.Time, valid bool) *wire.BlockHeader {
	h := &wire.BlockHeader{
		Version:   0x20000000,
		PrevBlock: prev.BlockHash(),
		Timestamp: ts,
		Bits:      chaincfg.SimNetParams.PowLimitBits,
	}
	target := blockchain.CompactToBig(h.Bits)
	for {
		hash := h.BlockHash()
		ok := blockchain.HashToBig(&hash).Cmp(target) <= 0
		if ok == valid {
			return h
		}
		h.Nonce++
	}
}

// F3: a request whose birth block cannot be fetched is never answered.
func TestDemoF3(t *testing.T) {
	mc := NewMockChainClient()
	h := Block100000.BlockHash()
	mc.SetBlockHash(100000, &h)
	mc.SetBestSnapshot(&h, 100000)
	scanner := NewUtxoScanner(&UtxoScannerConfig{
		GetBlock: func(chainhash.Hash, ...QueryOption) (*btcutil.Block, error) {
			return nil, errors.New("cannot fetch block")
		},
		GetBlockHash:       mc.GetBlockHash,
		BestSnapshot:       mc.BestSnapshot,
		BlockFilterMatches: mc.blockFilterMatches,
	})
	scanner.Start()
	defer scanner.Stop()
	req, err := scanner.Enqueue(makeTestInputWithScript(), 100000, nil)
	require.NoError(t, err)
	res := make(chan error, 1)
	go func() { _, err := req.Result(nil); res <- err }()
	select {
	case err := <-res:
		t.Fatalf("request answered (err=%v): F3 not reproduced", err)
	case <-time.After(2 * time.Second):
		t.Logf("GetBlock failed for the birth block; request still unanswered after 2s")
	}
}

// F6: headerList left ahead of the store after a batch aborts.
func TestDemoF6(t *testing.T) {
	bm, hdrStore, _, err := setupBlockManager(t)
	require.NoError(t, err)
	mkPeer := func(addr string) *ServerPeer {
		p, err := peer.NewOutboundPeer(&peer.Config{}, addr)
		require.NoError(t, err)
		return &ServerPeer{Peer: p}
	}
	gen := &chaincfg.SimNetParams.GenesisBlock.Header
	ts := gen.Timestamp
	A := demoMine(gen, ts.Add(time.Minute), true)
	B := demoMine(A, ts.Add(2*time.Minute), false) // bad proof of work
	C := demoMine(A, ts.Add(3*time.Minute), true)

	liar := mkPeer("1.2.3.4:18555")
	bm.handleHeadersMsg(&headersMsg{
		headers: &wire.MsgHeaders{Headers: []*wire.BlockHeader{A, B}},
		peer:    liar,
	})
	_, h, err := hdrStore.ChainTip()
	require.NoError(t, err)
	t.Logf("after [valid A, invalid B] from non-sync peer: store tip height=%d, headerList back height=%d",
		h, bm.headerList.Back().Height)
	// The liar was disconnected; it was never the sync peer.
	bm.handleDonePeerMsg(list.New(), liar)

	honest := mkPeer("5.6.7.8:18555")
	bm.handleHeadersMsg(&headersMsg{
		headers: &wire.MsgHeaders{Headers: []*wire.BlockHeader{C}},
		peer:    honest,
	})
	_, h, err = hdrStore.ChainTip()
	t.Logf("after honest [C child of A]: ChainTip height=%d err=%v", h, err)
	got, err1 := hdrStore.FetchHeaderByHeight(1)
	if err1 == nil {
		t.Logf("height 1 holds C (not A): %v", got.BlockHash() == C.BlockHash())
	}
	ch, err2 := hdrStore.HeightFromHash(func() *chainhash.Hash { x := C.BlockHash(); return &x }())
	t.Logf("index says C is at height %d (err=%v); by-height lookup of 2: %v", ch, err2,
		func() error { _, e := hdrStore.FetchHeaderByHeight(2); return e }())
	if err == nil && err1 == nil && got.BlockHash() == A.BlockHash() {
		t.Fatalf("store consistent: F6 not reproduced")
	}
	_ = headerfs.BlockHeader{}
}
