package headerfs

import (
	"os"
	"path/filepath"
	"testing"

	"github.com/btcsuite/btcd/chaincfg/v2"
	"github.com/stretchr/testify/require"
)

// TestDemoF9PartialRecordTrimmedOnOpen: a crash part-way through an append leaves a
// fragment shorter than one header at the end of the flat file. After the
// restart the store must neither report nor produce a torn or shifted entry.
func TestDemoF9PartialRecordTrimmedOnOpen(t *testing.T) {
	cleanUp, db, tempDir, bhs, err := createTestBlockHeaderStore()
	if cleanUp != nil {
		defer cleanUp()
	}
	require.NoError(t, err)

	chain := createTestBlockHeaderChain(6)
	require.NoError(t, bhs.WriteHeaders(chain[:3]...))

	// The process dies after 16 bytes of the next append reached the file
	// (the index is only updated after the file write).
	f, err := os.OpenFile(
		filepath.Join(tempDir, "block_headers.bin"),
		os.O_WRONLY|os.O_APPEND, 0644,
	)
	require.NoError(t, err)
	_, err = f.Write(make([]byte, 16))
	require.NoError(t, err)
	require.NoError(t, f.Close())

	// Restart.
	store, err := NewBlockHeaderStore(tempDir, db, &chaincfg.SimNetParams)
	require.NoError(t, err)

	// Syncing resumes.
	require.NoError(t, store.WriteHeaders(chain[3:]...))

	for _, want := range chain {
		got, err := store.FetchHeaderByHeight(want.Height)
		require.NoError(t, err)
		require.Equal(t, want.BlockHash(), got.BlockHash(),
			"header at height %d is torn or shifted", want.Height)
	}
}
