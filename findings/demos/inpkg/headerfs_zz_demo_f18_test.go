package headerfs

import (
	"sync"
	"testing"
	"time"

	"github.com/btcsuite/btcd/blockchain"
	"github.com/btcsuite/btcwallet/walletdb"
	"github.com/stretchr/testify/require"
)

// pausingDB wraps a walletdb.DB and pauses the first View call made after it
// was armed, which allows a test to deterministically interleave another
// goroutine with a store method that is in the middle of its execution (and
// thus holds the store's mutex).
type pausingDB struct {
	walletdb.DB

	once sync.Once

	// entered is closed once the first View call was reached.
	entered chan struct{}

	// resume is closed by the test to let the paused View call continue.
	resume chan struct{}
}

// View signals that the database was reached and waits for the test's go-ahead
// on the first call, every other call is passed through immediately.
func (p *pausingDB) View(f func(tx walletdb.ReadTx) error,
	reset func()) error {

	p.once.Do(func() {
		close(p.entered)
		<-p.resume
	})

	return p.DB.View(f, reset)
}

// TestBlockLocatorNoRecursiveReadLock makes sure that computing a block
// locator takes the store's read lock only once. A second (recursive) RLock
// deadlocks as soon as a writer starts to wait for the lock in between the two
// RLock calls: the second RLock queues up behind the writer, and the writer
// waits for the first read lock to be released.
func TestBlockLocatorNoRecursiveReadLock(t *testing.T) {
	const numHeaders = 20
	blockHeaders := createTestBlockHeaderChain(numHeaders)
	tipHash := blockHeaders[numHeaders-1].BlockHash()

	testCases := []struct {
		name    string
		locator func(*blockHeaderStore) (blockchain.BlockLocator, error)
	}{{
		name: "LatestBlockLocator",
		locator: func(bhs *blockHeaderStore) (blockchain.BlockLocator,
			error) {

			return bhs.LatestBlockLocator()
		},
	}, {
		name: "BlockLocatorFromHash",
		locator: func(bhs *blockHeaderStore) (blockchain.BlockLocator,
			error) {

			return bhs.BlockLocatorFromHash(&tipHash)
		},
	}}

	for _, testCase := range testCases {
		testCase := testCase

		t.Run(testCase.name, func(t *testing.T) {
			cleanUp, db, _, bhs, err := createTestBlockHeaderStore()
			if cleanUp != nil {
				defer cleanUp()
			}
			require.NoError(t, err)

			require.NoError(t, bhs.WriteHeaders(blockHeaders...))

			// The locator we expect: the tip, then every header
			// down to the genesis header one by one for the first
			// ten steps, then with a doubling distance.
			wantHeights := []uint32{
				20, 19, 18, 17, 16, 15, 14, 13, 12, 11, 10, 8,
				4, 0,
			}
			wantLocator := make(
				blockchain.BlockLocator, 0, len(wantHeights),
			)
			for _, height := range wantHeights {
				header, err := bhs.FetchHeaderByHeight(height)
				require.NoError(t, err)

				hash := header.BlockHash()
				wantLocator = append(wantLocator, &hash)
			}

			// From now on, the first database access is paused.
			// Both locator methods reach the database only after
			// they took the read lock.
			pauseDB := &pausingDB{
				DB:      db,
				entered: make(chan struct{}),
				resume:  make(chan struct{}),
			}
			bhs.db = pauseDB

			type result struct {
				locator blockchain.BlockLocator
				err     error
			}
			locatorDone := make(chan result, 1)
			go func() {
				locator, err := testCase.locator(bhs)
				locatorDone <- result{locator, err}
			}()

			// Wait until the reader is parked inside the database
			// call, holding the read lock.
			select {
			case <-pauseDB.entered:
			case <-time.After(10 * time.Second):
				close(pauseDB.resume)
				t.Fatalf("locator call never reached the db")
			}

			// Now a writer shows up, it has to wait for the reader.
			writerDone := make(chan error, 1)
			go func() {
				_, err := bhs.RollbackLastBlock()
				writerDone <- err
			}()

			// Only once the writer is queued up new read locks are
			// refused, which is what we wait for.
			require.Eventually(t, func() bool {
				if bhs.mtx.TryRLock() {
					bhs.mtx.RUnlock()
					return false
				}

				return true
			}, 10*time.Second, time.Millisecond)

			// Let the reader continue, it must be able to finish
			// without taking the lock a second time.
			close(pauseDB.resume)

			select {
			case res := <-locatorDone:
				require.NoError(t, res.err)
				require.Equal(t, wantLocator, res.locator)

			case <-time.After(5 * time.Second):
				t.Fatalf("deadlock: locator call blocked " +
					"behind a waiting writer")
			}

			// With the read lock released, the writer goes ahead.
			select {
			case err := <-writerDone:
				require.NoError(t, err)

			case <-time.After(5 * time.Second):
				t.Fatalf("writer never obtained the lock")
			}

			// The rollback happened after the locator was built.
			_, tipHeight, err := bhs.ChainTip()
			require.NoError(t, err)
			require.Equal(t, uint32(numHeaders-1), tipHeight)
		})
	}
}
