package neutrino

import (
	"testing"
	"time"

	"github.com/btcsuite/btcd/blockchain"
	"github.com/btcsuite/btcd/chaincfg/v2"
	"github.com/btcsuite/btcd/peer"
	"github.com/btcsuite/btcd/wire/v2"
	"github.com/btcsuite/btcwallet/walletdb"
	"github.com/lightninglabs/neutrino/banman"
	"github.com/lightninglabs/neutrino/headerfs"
	"github.com/stretchr/testify/require"
)

// F14: tip exactly on a checkpoint; heavier branch forking one below it.
func TestDemoF14(t *testing.T) {
	params := chaincfg.SimNetParams
	gen := &params.GenesisBlock.Header
	ts := gen.Timestamp
	A1 := demoMine(gen, ts.Add(1*time.Minute), true)
	A2 := demoMine(A1, ts.Add(2*time.Minute), true) // will be the checkpoint
	B2 := demoMine(A1, ts.Add(3*time.Minute), true)
	B3 := demoMine(B2, ts.Add(4*time.Minute), true)
	cpHash := A2.BlockHash()
	params.Checkpoints = []chaincfg.Checkpoint{{Height: 2, Hash: &cpHash}}

	dir := t.TempDir()
	db, err := walletdb.Create("bdb", dir+"/n.db", true, dbOpenTimeout, false)
	require.NoError(t, err)
	defer db.Close()
	hs, err := headerfs.NewBlockHeaderStore(dir, db, &params)
	require.NoError(t, err)
	fs, err := headerfs.NewFilterHeaderStore(dir, db, headerfs.RegularFilter, &params, nil)
	require.NoError(t, err)
	bm, err := newBlockManager(&blockManagerCfg{
		ChainParams: params, BlockHeaders: hs, RegFilterHeaders: fs,
		QueryDispatcher: &mockDispatcher{}, TimeSource: blockchain.NewMedianTime(),
		BanPeer: func(string, banman.Reason) error { return nil },
	})
	require.NoError(t, err)
	// rollBackToHeight emits notifications; drain them.
	go func() {
		for range bm.blockNtfnChan {
		}
	}()
	p, err := peer.NewOutboundPeer(&peer.Config{}, "1.2.3.4:18555")
	require.NoError(t, err)
	sp := &ServerPeer{Peer: p}
	bm.syncPeer = sp

	bm.handleHeadersMsg(&headersMsg{headers: &wire.MsgHeaders{Headers: []*wire.BlockHeader{A1, A2}}, peer: sp})
	tip, h, _ := hs.ChainTip()
	t.Logf("synced to checkpoint: tip height=%d is checkpoint=%v nextCheckpoint=%v", h, tip.BlockHash() == cpHash, bm.nextCheckpoint)

	bm.handleHeadersMsg(&headersMsg{headers: &wire.MsgHeaders{Headers: []*wire.BlockHeader{B2, B3}}, peer: sp})
	tip, h, err = hs.ChainTip()
	at2, _ := hs.FetchHeaderByHeight(2)
	t.Logf("after heavier branch forking at height 1: tip height=%d err=%v; header at checkpoint height 2 equals checkpoint: %v",
		h, err, at2 != nil && at2.BlockHash() == cpHash)
	_ = tip
}
