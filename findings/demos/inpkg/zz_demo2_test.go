package neutrino

import (
	"context"
	"testing"
	"time"

	"github.com/btcsuite/btcd/chaincfg/v2"
	"github.com/btcsuite/btcd/chainhash/v2"
	"github.com/btcsuite/btcd/wire/v2"
	"github.com/btcsuite/btcwallet/walletdb"
	"github.com/lightninglabs/neutrino/blockntfns"
	"github.com/lightninglabs/neutrino/headerfs"
	"github.com/lightninglabs/neutrino/pushtx"
	"github.com/stretchr/testify/require"
)

// F2: MarkAsConfirmed after Stop blocks forever.
func TestDemoF2(t *testing.T) {
	ntfn := make(chan blockntfns.BlockNtfn)
	b := pushtx.NewBroadcaster(&pushtx.Config{
		Broadcast: func(*wire.MsgTx) error { return nil },
		SubscribeBlocks: func() (*blockntfns.Subscription, error) {
			return &blockntfns.Subscription{Notifications: ntfn, Cancel: func() {}}, nil
		},
		RebroadcastInterval: time.Hour,
	})
	require.NoError(t, b.Start())
	b.Stop()
	done := make(chan struct{})
	go func() { b.MarkAsConfirmed(chainhash.Hash{}); close(done) }()
	select {
	case <-done:
		t.Fatalf("returned: F2 not reproduced")
	case <-time.After(2 * time.Second):
		t.Logf("MarkAsConfirmed after Stop still blocked after 2s")
	}
}

// F10: Stop with a UTXO scan in flight and no peers.
func TestDemoF10(t *testing.T) {
	dir := t.TempDir()
	db, err := walletdb.Create("bdb", dir+"/n.db", true, dbOpenTimeout, false)
	require.NoError(t, err)
	defer db.Close()
	svc, err := NewChainService(Config{
		DataDir:     dir,
		Database:    db,
		ChainParams: chaincfg.SimNetParams,
	})
	require.NoError(t, err)
	require.NoError(t, svc.Start(context.Background()))

	go func() {
		_, err := svc.GetUtxo(
			WatchInputs(InputWithScript{OutPoint: wire.OutPoint{Index: 1}, PkScript: []byte{0x51}}),
			StartBlock(&headerfs.BlockStamp{Height: 0}),
		)
		t.Logf("GetUtxo returned: %v", err)
	}()
	time.Sleep(500 * time.Millisecond)

	stopped := make(chan struct{})
	go func() { svc.Stop(); close(stopped) }()
	select {
	case <-stopped:
		t.Fatalf("Stop returned: F10 not reproduced")
	case <-time.After(10 * time.Second):
		t.Logf("ChainService.Stop still blocked after 10s (UTXO scan in flight, zero peers)")
	}
}
