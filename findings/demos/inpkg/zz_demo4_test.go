package neutrino

import (
	"testing"
	"time"

	"github.com/btcsuite/btcd/btcutil/v2"
	"github.com/btcsuite/btcd/chainhash/v2"
	"github.com/btcsuite/btcd/rpcclient"
	"github.com/btcsuite/btcd/wire/v2"
	"github.com/lightninglabs/neutrino/headerfs"
)

// F16: reorg while a rescan is catching up by height.
func TestDemoF16(t *testing.T) {
	chain := newMockChainSource(10) // heights 0..9
	type ev struct {
		height int32
		hash   chainhash.Hash
		prev   chainhash.Hash
		conn   bool
	}
	var evs []ev
	reorged := false
	quit := make(chan struct{})
	done := make(chan struct{})
	ntfn := rpcclient.NotificationHandlers{
		OnFilteredBlockConnected: func(h int32, hdr *wire.BlockHeader, _ []*btcutil.Tx) {
			evs = append(evs, ev{h, hdr.BlockHash(), hdr.PrevBlock, true})
			if h == 5 && !reorged {
				reorged = true
				// The chain reorganises below our position while we walk it.
				chain.rollbackToHeight(3, false)
				for i := 0; i < 8; i++ {
					chain.mu.Lock()
					prev := chain.bestBlock.Hash
					nh := uint32(chain.bestBlock.Height + 1)
					chain.mu.Unlock()
					chain.addNewBlockWithHeader(&wire.BlockHeader{
						PrevBlock: prev, Nonce: 7777,
						Timestamp: time.Unix(1700000000+int64(nh), 0),
					}, false)
				}
			}
			if h == 9 {
				close(done)
			}
		},
		OnFilteredBlockDisconnected: func(h int32, hdr *wire.BlockHeader) {
			evs = append(evs, ev{h, hdr.BlockHash(), hdr.PrevBlock, false})
		},
	}
	r := NewRescan(chain, NotificationHandlers(ntfn), QuitChan(quit),
		StartBlock(&headerfs.BlockStamp{Height: 0}))
	errc := r.Start()
	select {
	case <-done:
	case err := <-errc:
		t.Logf("rescan ended: %v", err)
	case <-time.After(5 * time.Second):
		t.Logf("timeout")
	}
	close(quit)
	r.WaitForShutdown()
	var cur chainhash.Hash = *chain.ChainParams().GenesisHash
	bad := 0
	for _, e := range evs {
		if e.conn {
			ok := e.prev == cur
			if !ok {
				bad++
			}
			t.Logf("connected    h=%d parent-is-current=%v", e.height, ok)
			cur = e.hash
		} else {
			t.Logf("disconnected h=%d", e.height)
			cur = e.prev
		}
	}
	if bad == 0 {
		t.Fatalf("walk consistent: F16 not reproduced")
	}
}
