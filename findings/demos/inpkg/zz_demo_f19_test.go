package neutrino

import (
	"testing"
	"time"
)

// TestDemoF19StopWithoutStart: Stop on a scanner whose Start never ran must
// return (ChainService.Stop calls it after a failed Start).
func TestDemoF19StopWithoutStart(t *testing.T) {
	scanner := NewUtxoScanner(&UtxoScannerConfig{})
	done := make(chan error, 1)
	go func() { done <- scanner.Stop() }()
	select {
	case err := <-done:
		if err != nil {
			t.Fatalf("Stop: %v", err)
		}
	case <-time.After(5 * time.Second):
		t.Fatalf("UtxoScanner.Stop did not return although Start never ran")
	}
	// a request made afterwards is refused
	if _, err := scanner.Enqueue(&InputWithScript{}, 1, nil); err != ErrShuttingDown {
		t.Fatalf("Enqueue after Stop: %v", err)
	}
}
