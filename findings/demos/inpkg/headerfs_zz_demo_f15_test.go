package headerfs

import (
	"errors"
	"os"
	"path/filepath"
	"testing"
	"time"

	"github.com/btcsuite/btcd/chaincfg/v2"
	"github.com/btcsuite/btcwallet/walletdb"
	"github.com/stretchr/testify/mock"
	"github.com/stretchr/testify/require"
)

// F15: index update fails AND the following Sync fails: WriteHeaders returns
// an error but the appended records stay in the file.
func TestDemoF15(t *testing.T) {
	dir := t.TempDir()
	db, err := walletdb.Create("bdb", filepath.Join(dir, "t.db"), true, 10*time.Second, false)
	require.NoError(t, err)
	defer db.Close()
	bHS, err := NewBlockHeaderStore(dir, db, &chaincfg.SimNetParams)
	require.NoError(t, err)
	bS := bHS.(*blockHeaderStore)

	var hdrs []BlockHeader
	for i := 1; i < len(blockHdrs); i++ {
		h, err := constructBlkHdr(blockHdrs[i], uint32(i))
		require.NoError(t, err)
		hdrs = append(hdrs, *h)
	}

	m := &MockWalletDB{}
	m.On("Update", mock.Anything, mock.Anything).Return(errors.New("I/O write error"))
	bS.db = m
	bS.file = &mockFile{File: bS.file.(*os.File), syncFn: func() error { return errors.New("fsync failed") }}

	before, _ := os.Stat(filepath.Join(dir, "block_headers.bin"))
	err = bHS.WriteHeaders(hdrs...)
	after, _ := os.Stat(filepath.Join(dir, "block_headers.bin"))
	t.Logf("WriteHeaders err=%v; file size before=%d after=%d (%d headers were to be written)", err, before.Size(), after.Size(), len(hdrs))
	require.Error(t, err)
	if after.Size() == before.Size() {
		t.Fatalf("store unchanged: F15 not reproduced")
	}
}
