package demo

import (
	"errors"
	"sync"
	"sync/atomic"
	"testing"
	"time"

	"github.com/lightninglabs/neutrino/cache/lru"
)

type flaky struct {
	sz   uint64
	fail *atomic.Bool
}

func (f *flaky) Size() (uint64, error) {
	if f.fail.Load() {
		return 0, errors.New("size unavailable")
	}
	return f.sz, nil
}

// F1: Put returns with the mutex held when evict fails.
func TestF1PutLockLeak(t *testing.T) {
	var fail atomic.Bool
	c := lru.NewCache[int, *flaky](2)
	if _, err := c.Put(1, &flaky{1, &fail}); err != nil {
		t.Fatal(err)
	}
	if _, err := c.Put(2, &flaky{1, &fail}); err != nil {
		t.Fatal(err)
	}
	// New value computes its size fine, resident ones now fail.
	ok := &atomic.Bool{}
	fail.Store(true)
	_, err := c.Put(3, &flaky{1, ok})
	t.Logf("Put with failing resident Size(): err=%v", err)
	fail.Store(false)
	done := make(chan struct{})
	go func() { c.Len(); close(done) }()
	select {
	case <-done:
		t.Fatalf("cache still usable: F1 not reproduced")
	case <-time.After(500 * time.Millisecond):
		t.Logf("cache.Len() blocked >500ms after failed Put: mutex leaked")
	}
}

type sized uint64

func (s sized) Size() (uint64, error) { return uint64(s), nil }

// F13: two Puts of one key that both looked up the index before either took
// the lock. The window is forced by holding the lock inside an onDelete
// callback (called under the cache mutex) while both Puts do their lookup.
func TestF13ConcurrentPutSameKey(t *testing.T) {
	hold := make(chan struct{})
	inCb := make(chan struct{})
	var once sync.Once
	c := lru.NewCache[string, sized](3, lru.WithDeleteCallback(func(k string, v sized) {
		once.Do(func() { close(inCb); <-hold })
	}))
	c.Put("k", 1)
	c.Put("victim", 1)
	// Goroutine 0 deletes "victim": callback blocks while holding c.mtx.
	go c.Delete("victim")
	<-inCb
	var wg sync.WaitGroup
	for i := 0; i < 2; i++ {
		wg.Add(1)
		go func() { defer wg.Done(); c.Put("k", 1) }()
	}
	time.Sleep(200 * time.Millisecond) // both Puts have done Load and wait on Lock
	close(hold)
	wg.Wait()
	n := 0
	var total uint64
	c.RangeFILO(func(k string, v sized) bool { n++; total += uint64(v); return true })
	t.Logf("after two Put(k): Len()=%d Size()=%d; list walk: %d elements, total size %d", c.Len(), c.Size(), n, total)
	if c.Len() == 1 && c.Size() == 1 {
		t.Fatalf("consistent: F13 not reproduced")
	}
}
