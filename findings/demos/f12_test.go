package demo

import (
	"sync"
	"testing"

	"github.com/lightninglabs/neutrino/cache/lru"
)

func TestF12RangeRace(t *testing.T) {
	c := lru.NewCache[int, sized](1000)
	var wg sync.WaitGroup
	wg.Add(2)
	go func() {
		defer wg.Done()
		for i := 0; i < 2000; i++ {
			c.Put(i%50, 1)
		}
	}()
	go func() {
		defer wg.Done()
		for i := 0; i < 2000; i++ {
			c.RangeFIFO(func(int, sized) bool { return true })
		}
	}()
	wg.Wait()
}
