package demo

import (
	"bytes"
	"context"
	"os"
	"path/filepath"
	"testing"
	"time"

	"github.com/btcsuite/btcd/blockchain"
	"github.com/btcsuite/btcd/chaincfg/v2"
	"github.com/btcsuite/btcd/chainhash/v2"
	"github.com/btcsuite/btcd/wire/v2"
	"github.com/btcsuite/btcwallet/walletdb"
	"github.com/lightninglabs/neutrino/chainimport"
	"github.com/lightninglabs/neutrino/headerfs"
)

// F11: the first header of an import file that starts right after the target
// tip is only ever the "prev" of a validated pair: its own proof of work is
// never checked.
func TestF11FirstImportedHeaderNotValidated(t *testing.T) {
	params := chaincfg.SimNetParams
	dir := t.TempDir()
	db, err := walletdb.Create("bdb", filepath.Join(dir, "n.db"), true, time.Second*10, false)
	if err != nil {
		t.Fatal(err)
	}
	defer db.Close()
	bs, err := headerfs.NewBlockHeaderStore(dir, db, &params)
	if err != nil {
		t.Fatal(err)
	}
	fs, err := headerfs.NewFilterHeaderStore(dir, db, headerfs.RegularFilter, &params, nil)
	if err != nil {
		t.Fatal(err)
	}

	const n = 4
	prev := &params.GenesisBlock.Header
	ts := prev.Timestamp
	var hdrs []*wire.BlockHeader
	var bbuf, fbuf bytes.Buffer
	for i := 1; i <= n; i++ {
		ts = ts.Add(time.Minute)
		h := mine(prev, ts)
		if i == 1 {
			// spoil the proof of work of the first header
			target := blockchain.CompactToBig(h.Bits)
			for {
				h.Nonce++
				hash := h.BlockHash()
				if blockchain.HashToBig(&hash).Cmp(target) > 0 {
					break
				}
			}
		}
		hdrs = append(hdrs, h)
		h.Serialize(&bbuf)
		fh := chainhash.DoubleHashH([]byte{byte(i)})
		fbuf.Write(fh[:])
		prev = h
	}
	if err := blockchain.CheckBlockHeaderSanity(hdrs[0], params.PowLimit, blockchain.NewMedianTime(), blockchain.BFNone); err == nil {
		t.Fatal("test setup: the first header should be invalid")
	} else {
		t.Logf("first header of the file is invalid on its own: %v", err)
	}
	bf := filepath.Join(dir, "b.imp")
	ff := filepath.Join(dir, "f.imp")
	os.WriteFile(bf, bbuf.Bytes(), 0644)
	os.WriteFile(ff, fbuf.Bytes(), 0644)
	if err := chainimport.AddHeadersImportMetadata(bf, params.Net, 0, headerfs.Block, 1); err != nil {
		t.Fatal(err)
	}
	if err := chainimport.AddHeadersImportMetadata(ff, params.Net, 0, headerfs.RegularFilter, 1); err != nil {
		t.Fatal(err)
	}
	imp, err := chainimport.NewHeadersImport(&chainimport.ImportOptions{
		TargetChainParams:       params,
		TargetBlockHeaderStore:  bs,
		TargetFilterHeaderStore: fs,
		BlockHeadersSource:      bf,
		FilterHeadersSource:     ff,
		WriteBatchSizePerRegion: 4,
	})
	if err != nil {
		t.Fatal(err)
	}
	res, err := imp.Import(context.Background())
	t.Logf("Import: res=%+v err=%v", res, err)
	_, tipH, _ := bs.ChainTip()
	if err == nil && tipH >= 1 {
		got, _ := bs.FetchHeaderByHeight(1)
		t.Fatalf("import succeeded (tip height %d) although the header at height 1 (stored: %v) fails its own proof of work", tipH, got != nil && got.BlockHash() == hdrs[0].BlockHash())
	}
}
