package demo

import (
	"bytes"
	"context"
	"os"
	"path/filepath"
	"testing"
	"time"

	"github.com/btcsuite/btcd/blockchain"
	"github.com/btcsuite/btcd/chaincfg/v2"
	"github.com/btcsuite/btcd/chainhash/v2"
	"github.com/btcsuite/btcd/wire/v2"
	"github.com/btcsuite/btcwallet/walletdb"
	"github.com/lightninglabs/neutrino/chainimport"
	"github.com/lightninglabs/neutrino/headerfs"
)

// mine produces a header satisfying simnet PoW on top of prev.
func mine(prev *wire.BlockHeader, ts time.Time) *wire.BlockHeader {
	h := &wire.BlockHeader{
		Version:   0x20000000,
		PrevBlock: prev.BlockHash(),
		Timestamp: ts,
		Bits:      chaincfg.SimNetParams.PowLimitBits,
	}
	target := blockchain.CompactToBig(h.Bits)
	for {
		hash := h.BlockHash()
		if blockchain.HashToBig(&hash).Cmp(target) <= 0 {
			return h
		}
		h.Nonce++
	}
}

func TestF4ImportStartHeightOne(t *testing.T) {
	params := chaincfg.SimNetParams
	dir := t.TempDir()
	db, err := walletdb.Create("bdb", filepath.Join(dir, "n.db"), true, time.Second*10, false)
	if err != nil {
		t.Fatal(err)
	}
	defer db.Close()
	bs, err := headerfs.NewBlockHeaderStore(dir, db, &params)
	if err != nil {
		t.Fatal(err)
	}
	fs, err := headerfs.NewFilterHeaderStore(dir, db, headerfs.RegularFilter, &params, nil)
	if err != nil {
		t.Fatal(err)
	}

	// Build a valid 6-header chain on top of genesis, heights 1..6.
	const n = 6
	prev := &params.GenesisBlock.Header
	ts := prev.Timestamp
	var hdrs []*wire.BlockHeader
	var bbuf, fbuf bytes.Buffer
	for i := 1; i <= n; i++ {
		ts = ts.Add(time.Minute)
		h := mine(prev, ts)
		hdrs = append(hdrs, h)
		h.Serialize(&bbuf)
		fh := chainhash.DoubleHashH([]byte{byte(i)})
		fbuf.Write(fh[:])
		prev = h
	}
	bf := filepath.Join(dir, "b.imp")
	ff := filepath.Join(dir, "f.imp")
	os.WriteFile(bf, bbuf.Bytes(), 0644)
	os.WriteFile(ff, fbuf.Bytes(), 0644)
	// The files start at height 1 (genesis is already in the stores).
	if err := chainimport.AddHeadersImportMetadata(bf, params.Net, 0, headerfs.Block, 1); err != nil {
		t.Fatal(err)
	}
	if err := chainimport.AddHeadersImportMetadata(ff, params.Net, 0, headerfs.RegularFilter, 1); err != nil {
		t.Fatal(err)
	}

	imp, err := chainimport.NewHeadersImport(&chainimport.ImportOptions{
		TargetChainParams:       params,
		TargetBlockHeaderStore:  bs,
		TargetFilterHeaderStore: fs,
		BlockHeadersSource:      bf,
		FilterHeadersSource:     ff,
		WriteBatchSizePerRegion: 4,
	})
	if err != nil {
		t.Fatal(err)
	}
	res, err := imp.Import(context.Background())
	t.Logf("Import: res=%+v err=%v", res, err)
	if err != nil {
		t.Fatalf("import reported failure: %v", err)
	}
	tip, tipH, terr := bs.ChainTip()
	t.Logf("ChainTip after 'successful' import: height=%d err=%v tip=%v", tipH, terr, tip != nil)
	for h := uint32(1); h <= n; h++ {
		got, err := bs.FetchHeaderByHeight(h)
		if err != nil {
			t.Logf("height %d: error %v", h, err)
			continue
		}
		t.Logf("height %d: matches file header for that height: %v", h, got.BlockHash() == hdrs[h-1].BlockHash())
	}
}
